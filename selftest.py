#!/usr/bin/env python3
"""Monitor validation (DESIGN.md 2.5): apply scripted, realistic mutants of jub0bs/cors to a scratch
copy of /repo, confirm that the unedited baseline suite still passes with the mutant, and that the
quick check of the targeted property reports a VIOLATION.

usage: ./selftest.py [--no-baseline] [--tier quick|thorough] [ID|mutant-name ...]   (default: all mutants)

Not part of the registered quick/thorough commands. Scratch copies live under $TMPDIR and are removed.
"""
import json, os, shutil, subprocess, sys, tempfile, time

VERIF = os.path.dirname(os.path.abspath(__file__))
REPO = "/repo"
sys.path.insert(0, os.path.join(VERIF, "mutants"))
from mutants import MUTANTS  # noqa

ENV = dict(os.environ, GOFLAGS="-mod=mod", GOPROXY="off", GOSUMDB="off", GOTOOLCHAIN="local")


def apply(scratch, edits):
    for (fn, old, new) in edits:
        p = os.path.join(scratch, fn)
        s = open(p).read()
        if s.count(old) < 1:
            return "pattern not found in %s: %r" % (fn, old[:60])
        s = s.replace(old, new, 1)
        open(p, "w").write(s)
    return None


def main():
    args = sys.argv[1:]
    baseline = True
    tier = "quick"
    sel = []
    i = 0
    while i < len(args):
        if args[i] == "--no-baseline":
            baseline = False
        elif args[i] == "--tier":
            tier = args[i + 1]; i += 1
        else:
            sel.append(args[i])
        i += 1
    rows = []
    for m in MUTANTS:
        if sel and m["prop"] not in sel and m["name"] not in sel:
            continue
        scratch = tempfile.mkdtemp(prefix="verif-mut-")
        try:
            dst = os.path.join(scratch, "cors")
            shutil.copytree(REPO, dst, ignore=shutil.ignore_patterns(".git"))
            err = apply(dst, m["edits"])
            if err:
                rows.append((m["prop"], m["name"], "STALE", err)); print(rows[-1], flush=True)
                continue
            b = subprocess.run(["go", "build", "./..."], cwd=dst, env=ENV, stdout=subprocess.PIPE, stderr=subprocess.STDOUT, text=True)
            if b.returncode != 0:
                rows.append((m["prop"], m["name"], "NOBUILD", b.stdout[-300:])); print(rows[-1], flush=True)
                continue
            base = "skipped"
            if baseline:
                t = subprocess.run(["go", "test", "-vet=off", "-count=1", "./..."], cwd=dst, env=ENV, stdout=subprocess.PIPE, stderr=subprocess.STDOUT, text=True)
                base = "pass" if t.returncode == 0 else "FAIL"
            env = dict(ENV, VERIF_REPO=dst, VERIF_BUILD=os.path.join(scratch, "build"), VERIF_EVID=os.path.join(scratch, "evidence"),
                       VERIF_REPLAYS=os.path.join(scratch, "replays"))
            t0 = time.time()
            c = subprocess.run([os.path.join(VERIF, "check"), m["prop"], "--tier", tier], cwd=VERIF, env=env, stdout=subprocess.PIPE, stderr=subprocess.PIPE, text=True)
            dt = time.time() - t0
            caught = c.returncode == 1 and "VIOLATION property=%s" % m["prop"] in c.stdout
            first = ""
            for line in c.stderr.splitlines():
                if line.strip():
                    first = line.strip()[:260]
                    break
            rows.append((m["prop"], m["name"], "CAUGHT" if caught else "MISSED(exit %d)" % c.returncode, "baseline=%s %.0fs %s" % (base, dt, first)))
            print(rows[-1], flush=True)
        finally:
            shutil.rmtree(scratch, ignore_errors=True)
    missed = [r for r in rows if not r[2].startswith("CAUGHT")]
    print("\n%d mutants, %d caught, %d not caught" % (len(rows), len(rows) - len(missed), len(missed)))
    for r in missed:
        print("  ", r)
    sys.exit(0 if not missed else 1)


if __name__ == "__main__":
    main()
