#!/usr/bin/env python3
"""False-alarm guard: apply behaviour-preserving rewrites (neutral/neutral.py) to a scratch copy of /repo and
expect EVERY check to stay silent (exit 0).  usage: ./neutraltest.py [--tier quick] [name ...] [--props C01,C07]"""
import os, shutil, subprocess, sys, tempfile, time
VERIF = os.path.dirname(os.path.abspath(__file__))
sys.path.insert(0, os.path.join(VERIF, "neutral"))
from neutral import NEUTRAL  # noqa
ENV = dict(os.environ, GOFLAGS="-mod=mod", GOPROXY="off", GOSUMDB="off", GOTOOLCHAIN="local")
ALL = ["C%02d" % i for i in range(1, 20)]

def main():
    args = sys.argv[1:]
    props, sel, tier = ALL, [], "quick"
    i = 0
    while i < len(args):
        if args[i] == "--props":
            props = args[i + 1].split(","); i += 1
        elif args[i] == "--tier":
            tier = args[i + 1]; i += 1
        else:
            sel.append(args[i])
        i += 1
    bad = []
    items = list(NEUTRAL)
    # directories with a patch.diff (independently written behaviour-preserving rewrites, see neutral/README.md)
    pdir = os.path.join(VERIF, "neutral")
    for d in sorted(os.listdir(pdir)):
        if os.path.exists(os.path.join(pdir, d, "patch.diff")):
            items.append({"name": d, "patch": os.path.join(pdir, d, "patch.diff"), "edits": []})
    for n in items:
        if sel and n["name"] not in sel:
            continue
        scratch = tempfile.mkdtemp(prefix="verif-neutral-")
        try:
            dst = os.path.join(scratch, "cors")
            shutil.copytree("/repo", dst, ignore=shutil.ignore_patterns(".git"))
            ok = True
            if n.get("patch"):
                pr = subprocess.run(["patch", "-p1", "-i", n["patch"]], cwd=dst, stdout=subprocess.PIPE, stderr=subprocess.STDOUT, text=True)
                if pr.returncode != 0:
                    print(n["name"], "patch does not apply:", pr.stdout[-300:]); ok = False
            for (fn, old, new) in n["edits"]:
                p = os.path.join(dst, fn)
                s = open(p).read()
                if old not in s:
                    print(n["name"], "STALE pattern in", fn, repr(old[:50])); ok = False; break
                open(p, "w").write(s.replace(old, new, 1))
            if not ok:
                bad.append((n["name"], "stale")); continue
            b = subprocess.run(["go", "build", "./..."], cwd=dst, env=ENV, stdout=subprocess.PIPE, stderr=subprocess.STDOUT, text=True)
            if b.returncode != 0:
                print(n["name"], "NOBUILD", b.stdout[-400:]); bad.append((n["name"], "nobuild")); continue
            t = subprocess.run(["go", "test", "-vet=off", "-count=1", "./..."], cwd=dst, env=ENV, stdout=subprocess.PIPE, stderr=subprocess.STDOUT, text=True)
            print("%s: repository suite %s" % (n["name"], "passes" if t.returncode == 0 else "fails (pins literals)"), flush=True)
            env = dict(ENV, VERIF_REPO=dst, VERIF_BUILD=os.path.join(scratch, "build"), VERIF_EVID=os.path.join(scratch, "ev"), VERIF_REPLAYS=os.path.join(scratch, "rp"))
            for p in props:
                c = subprocess.run([os.path.join(VERIF, "check"), p, "--tier", tier], cwd=VERIF, env=env, stdout=subprocess.PIPE, stderr=subprocess.PIPE, text=True)
                if c.returncode != 0:
                    first = [l for l in c.stderr.splitlines() if l.strip()][:1]
                    print("  ALARM %s on %s (exit %d): %s %s" % (p, n["name"], c.returncode, c.stdout.strip()[:200], (first or [""])[0][:400]), flush=True)
                    bad.append((n["name"], p))
        finally:
            shutil.rmtree(scratch, ignore_errors=True)
    print("\n%d alarm(s) on neutral rewrites" % len(bad))
    for b in bad:
        print("  ", b)
    sys.exit(1 if bad else 0)

if __name__ == "__main__":
    main()
