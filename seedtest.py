#!/usr/bin/env python3
"""Evaluate seeded changes (from /verif/seeded/<id>/ or a scratch worktree) against the checks.

usage: ./seedtest.py [--tier quick|thorough] [--all-props] <dir> [<dir> ...]
  <dir> contains patch.diff, a demonstration (demo_test.go, optionally DEMO_DIR naming its package dir) and meta.json
  (meta.json: {"property": "C07", ...}); for a scratch worktree without meta.json pass --prop Cxx.

For each: scratch copy of /repo + patch -> (1) baseline suite must pass, (2) demo must fail with the patch and
pass without, (3) the property's quick check must report a VIOLATION (with --all-props every check is run, to see
false alarms and cross-detections). Scratch copies live under $TMPDIR and are removed.
"""
import json, os, shutil, subprocess, sys, tempfile, time

VERIF = os.path.dirname(os.path.abspath(__file__))
REPO = "/repo"
ENV = dict(os.environ, GOFLAGS="-mod=mod", GOPROXY="off", GOSUMDB="off", GOTOOLCHAIN="local")
ALL = ["C%02d" % i for i in range(1, 20)]


def run(cmd, cwd, env=ENV, timeout=3600):
    p = subprocess.run(cmd, cwd=cwd, env=env, stdout=subprocess.PIPE, stderr=subprocess.STDOUT, text=True, timeout=timeout)
    return p.returncode, p.stdout


def main():
    args = sys.argv[1:]
    tier, allprops, prop_override, dirs = "quick", False, None, []
    i = 0
    while i < len(args):
        if args[i] == "--tier":
            tier = args[i + 1]; i += 1
        elif args[i] == "--all-props":
            allprops = True
        elif args[i] == "--prop":
            prop_override = args[i + 1]; i += 1
        else:
            dirs.append(args[i])
        i += 1
    summary = []
    for d in dirs:
        d = os.path.abspath(d)
        meta = {}
        if os.path.exists(os.path.join(d, "meta.json")):
            meta = json.load(open(os.path.join(d, "meta.json")))
        prop = prop_override or meta.get("property")
        demo = meta.get("demo", "demo_test.go")
        demo_dir = meta.get("demo_dir", ".")
        scratch = tempfile.mkdtemp(prefix="verif-seed-")
        row = {"dir": d, "property": prop}
        try:
            clean = os.path.join(scratch, "clean")
            mut = os.path.join(scratch, "cors")
            shutil.copytree(REPO, clean, ignore=shutil.ignore_patterns(".git"))
            shutil.copytree(REPO, mut, ignore=shutil.ignore_patterns(".git"))
            rc, out = run(["patch", "-p1", "-i", os.path.join(d, "patch.diff")], mut)
            row["patch_applies"] = rc == 0
            if rc != 0:
                row["error"] = out[-400:]
                summary.append(row); print(json.dumps(row)); continue
            rc, out = run(["go", "test", "-vet=off", "-count=1", "./..."], mut)
            row["baseline_passes_with_patch"] = rc == 0
            # demonstration
            for tree in (clean, mut):
                shutil.copy(os.path.join(d, demo), os.path.join(tree, demo_dir, os.path.basename(demo)))
            pkg = "./" + demo_dir if demo_dir != "." else "."
            rc_m, out_m = run(["go", "test", "-vet=off", "-count=1", "-run", "TestSeededDemo", pkg] + meta.get("demo_flags", []), mut)
            rc_c, out_c = run(["go", "test", "-vet=off", "-count=1", "-run", "TestSeededDemo", pkg] + meta.get("demo_flags", []), clean)
            row["demo_fails_with_patch"] = rc_m != 0
            row["demo_passes_without"] = rc_c == 0
            os.remove(os.path.join(mut, demo_dir, os.path.basename(demo)))
            props = ALL if allprops else [prop]
            row["checks"] = {}
            for p in props:
                env = dict(ENV, VERIF_REPO=mut, VERIF_BUILD=os.path.join(scratch, "build"), VERIF_EVID=os.path.join(scratch, "evidence"),
                           VERIF_REPLAYS=os.path.join(scratch, "replays"))
                t0 = time.time()
                c = subprocess.run([os.path.join(VERIF, "check"), p, "--tier", tier], cwd=VERIF, env=env, stdout=subprocess.PIPE, stderr=subprocess.PIPE, text=True)
                first = ""
                for line in c.stderr.splitlines():
                    if line.strip():
                        first = line.strip()[:300]
                        break
                verdict = {0: "silent", 1: "VIOLATION", 2: "inconclusive"}.get(c.returncode, "exit %d" % c.returncode)
                row["checks"][p] = {"verdict": verdict, "s": round(time.time() - t0, 1), "first": first}
            row["caught"] = row["checks"].get(prop, {}).get("verdict") == "VIOLATION"
        finally:
            shutil.rmtree(scratch, ignore_errors=True)
        summary.append(row)
        print(json.dumps(row), flush=True)
    print()
    for r in summary:
        others = [p for p, v in r.get("checks", {}).items() if v["verdict"] == "VIOLATION" and p != r["property"]]
        print("%-40s prop=%s baseline=%s demo(fail/pass)=%s/%s caught=%s also=%s" % (os.path.basename(r["dir"]), r["property"], r.get("baseline_passes_with_patch"),
              r.get("demo_fails_with_patch"), r.get("demo_passes_without"), r.get("caught"), others))


if __name__ == "__main__":
    main()
