#!/bin/sh
# usage: seedimport.sh <Cxx> <name>  : copies patch.diff, demo and NOTES.md from /tmp/seed_<Cxx> into /verif/seeded/<name>/
set -e
P=$1; N=$2; S=${3:-/tmp/seed_$P}; D=/verif/seeded/$N
mkdir -p $D
cp $S/patch.diff $D/patch.diff
DEMO=$(cd $S && git status --porcelain | grep -o '[^ ]*demo_test.go' | head -1)
[ -z "$DEMO" ] && DEMO=demo_test.go
cp $S/$DEMO $D/demo_test.go
[ -f $S/NOTES.md ] && cp $S/NOTES.md $D/NOTES.md
DD=$(dirname $DEMO)
printf '{"property": "%s", "demo": "demo_test.go", "demo_dir": "%s"}\n' $P $DD > $D/meta.json
echo imported $D demo_dir=$DD
