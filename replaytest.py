#!/usr/bin/env python3
"""Checks the replay path: for one mutant per property, run the check on the mutated scratch copy, take the first
replay file, and confirm that `./check <ID> --replay <file>` reproduces the violation on the mutated copy (exit 1)
and is silent on the unchanged /repo (exit 0)."""
import os, re, shutil, subprocess, sys, tempfile
VERIF = os.path.dirname(os.path.abspath(__file__))
sys.path.insert(0, os.path.join(VERIF, "mutants"))
from mutants import MUTANTS  # noqa
ENV = dict(os.environ, GOFLAGS="-mod=mod", GOPROXY="off", GOSUMDB="off", GOTOOLCHAIN="local")
want = sys.argv[1:] or None
seen, bad = set(), []
for m in MUTANTS:
    p = m["prop"]
    if p in seen or (want and p not in want):
        continue
    seen.add(p)
    scratch = tempfile.mkdtemp(prefix="verif-replay-")
    try:
        dst = os.path.join(scratch, "cors")
        shutil.copytree("/repo", dst, ignore=shutil.ignore_patterns(".git"))
        ok = True
        for (fn, old, new) in m["edits"]:
            s = open(os.path.join(dst, fn)).read()
            if old not in s:
                ok = False
                break
            open(os.path.join(dst, fn), "w").write(s.replace(old, new, 1))
        if not ok:
            print(p, m["name"], "STALE"); continue
        env = dict(ENV, VERIF_REPO=dst, VERIF_BUILD=os.path.join(scratch, "b"), VERIF_EVID=os.path.join(scratch, "e"), VERIF_REPLAYS=os.path.join(scratch, "r"))
        c = subprocess.run([os.path.join(VERIF, "check"), p], cwd=VERIF, env=env, stdout=subprocess.PIPE, stderr=subprocess.PIPE, text=True)
        mo = re.search(r"VIOLATION property=%s replay=(\S+)" % p, c.stdout)
        if not mo:
            print(p, m["name"], "no violation?"); bad.append(p); continue
        rp = mo.group(1)
        if not rp.endswith(".json"):
            print(p, m["name"], "replay is a report file (%s): not re-executable" % os.path.basename(rp)); continue
        a = subprocess.run([os.path.join(VERIF, "check"), p, "--replay", rp], cwd=VERIF, env=env, stdout=subprocess.PIPE, stderr=subprocess.PIPE, text=True)
        env2 = dict(ENV, VERIF_BUILD=os.path.join(scratch, "b2"), VERIF_EVID=os.path.join(scratch, "e2"), VERIF_REPLAYS=os.path.join(scratch, "r2"))
        b = subprocess.run([os.path.join(VERIF, "check"), p, "--replay", rp], cwd=VERIF, env=env2, stdout=subprocess.PIPE, stderr=subprocess.PIPE, text=True)
        verdict = "ok" if (a.returncode == 1 and b.returncode == 0) else "BAD"
        print(p, m["name"], "replay on mutant: exit %d, on unchanged tree: exit %d -> %s" % (a.returncode, b.returncode, verdict), flush=True)
        if verdict != "ok":
            bad.append(p)
            print("   ", (a.stdout + a.stderr)[-300:].replace("\n", " | "))
            print("   ", (b.stdout + b.stderr)[-300:].replace("\n", " | "))
    finally:
        shutil.rmtree(scratch, ignore_errors=True)
print("bad:", bad)
sys.exit(1 if bad else 0)
