//go:build verif && !verifyield

package verifharness_test

const yieldBuild = false

func setYieldHook(f func(id int, where string)) {}
