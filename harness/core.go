//go:build verif

// Package verifharness_test is the runtime-monitoring harness for jub0bs/cors.
// It is mapped by a -overlay into the (non-existent) directory
// /repo/internal/verifharness so that it can observe the internal packages
// without any change to the repository. See /verif/DESIGN.md.
package verifharness_test

import (
	"encoding/json"
	"fmt"
	"hash/maphash"
	"math/rand/v2"
	"os"
	"path/filepath"
	"runtime"
	"runtime/debug"
	"sort"
	"strconv"
	"sync"
	"sync/atomic"
	"testing"
	"time"
)

// ---------------------------------------------------------------------------
// run context

type violation struct {
	Key    string `json:"key"`
	Msg    string `json:"msg"`
	Replay string `json:"replay"`
}

type Run struct {
	Prop    string
	Tier    string
	Seed    uint64
	Phase   string
	Variant string
	Thor    bool // tier == thorough
	t       *testing.T
	start   time.Time

	mu              sync.Mutex
	counters        map[string]int64
	samples         []any
	sampleSeen      map[string]bool
	viols           []violation
	violKeys        map[string]int
	extra           map[string]any
	rule            string
	exhaustive      []string
	assumptions     []string
	panics          int64
	panicSample     string
	fallbackSamples int
	inconcl         []string

	evals    atomic.Int64
	nontrivN atomic.Int64 // distinct by construction
	nontriv  *distinctSet // distinct by hashing (capped => lower bound)
	nViol    atomic.Int64
	batchLog sync.Mutex
}

func envOr(k, d string) string {
	if v := os.Getenv(k); v != "" {
		return v
	}
	return d
}

func newRun(t *testing.T, prop string) *Run {
	seed, _ := strconv.ParseUint(envOr("VERIF_SEED", "1"), 10, 64)
	r := &Run{
		Prop: prop, Tier: envOr("VERIF_TIER", "quick"), Seed: seed,
		Phase: envOr("VERIF_PHASE", "main"), Variant: envOr("VERIF_VARIANT", "cover"),
		t: t, start: time.Now(),
		counters: map[string]int64{}, sampleSeen: map[string]bool{}, violKeys: map[string]int{},
		extra: map[string]any{}, nontriv: newDistinctSet(4 << 20),
	}
	r.Thor = r.Tier == "thorough"
	return r
}

func (r *Run) Rule(s string) { r.rule = s }
func (r *Run) Exhaustive(part string) {
	r.mu.Lock()
	r.exhaustive = append(r.exhaustive, part)
	r.mu.Unlock()
}
func (r *Run) Assume(s string)     { r.mu.Lock(); r.assumptions = append(r.assumptions, s); r.mu.Unlock() }
func (r *Run) Set(k string, v any) { r.mu.Lock(); r.extra[k] = v; r.mu.Unlock() }
func (r *Run) Inconclusive(why string) {
	r.mu.Lock()
	r.inconcl = append(r.inconcl, why)
	r.mu.Unlock()
}
func (r *Run) IsRace() bool    { return r.Variant == "race" || r.Variant == "yield" }
func (r *Run) Replaying() bool { return os.Getenv("VERIF_REPLAY") != "" }

// visit decides whether item idx of an enumerated product is part of this run's 1/stride sample.
// A multiplicative hash of (idx, seed) is used instead of idx%stride: plain strides alias with the
// mixed-radix structure of the products (with stride 9 one request-header kind of the configuration
// product was never visited for some seeds - found through seeded change C09-c).
func (r *Run) visit(idx, stride int) bool {
	if stride <= 1 {
		return true
	}
	x := uint64(idx)*0x9E3779B97F4A7C15 ^ (r.Seed+1)*0xD6E8FEB86659FD93
	x ^= x >> 32
	x *= 0xD6E8FEB86659FD93
	x ^= x >> 29
	return x%uint64(stride) == 0
}

// pick returns q in the quick tier and th in the thorough tier.
func pick[T any](r *Run, q, th T) T {
	if r.Thor {
		return th
	}
	return q
}

// Local is the per-worker (lock-free) part of the statistics.
type Local struct {
	r        *Run
	evals    int64
	nontrivN int64
	counters map[string]int64
	Rng      *rand.Rand
	Batch    int
	hasher   maphash.Hash
	nsamp    int
	// cur describes the case being executed (set by hot loops instead of a
	// per-case recover; a panic is then attributed by the batch-level recover).
	cur func() any
	// allocation-free variant for the hottest loops: two string lists
	curA, curB []string
	// allocation-free counters for the hottest loops (merged as "n1", "n2")
	n1, n2 int64
}

func (l *Local) Eval()                 { l.evals++ }
func (l *Local) EvalN(n int64)         { l.evals += n }
func (l *Local) Count(k string)        { l.counters[k]++ }
func (l *Local) Add(k string, n int64) { l.counters[k] += n }

// Nontrivial counts one case that is non-trivial and distinct *by construction*.
func (l *Local) Nontrivial() { l.nontrivN++ }

// NontrivialKey counts a non-trivial case whose distinctness is established by hashing its key.
func (l *Local) NontrivialKey(parts ...string) {
	l.hasher.Reset()
	for _, p := range parts {
		l.hasher.WriteString(p)
		l.hasher.WriteByte(0)
	}
	l.r.nontriv.add(l.hasher.Sum64())
}

// Sample records an actual case (a few per kind) for the evidence file.
func (l *Local) Sample(kind string, c any) {
	if l.nsamp > 64 {
		return
	}
	l.nsamp++
	l.r.Sample(kind, c)
}

func (r *Run) Sample(kind string, c any) {
	r.mu.Lock()
	defer r.mu.Unlock()
	n := 0
	for k := range r.sampleSeen {
		if len(k) > len(kind) && k[:len(kind)+1] == kind+"#" {
			n++
		}
	}
	if n >= 3 || len(r.samples) >= 24 {
		return
	}
	r.sampleSeen[kind+"#"+strconv.Itoa(n)] = true
	r.samples = append(r.samples, map[string]any{"kind": kind, "case": c})
}

var seedSet = maphash.MakeSeed()

func (r *Run) newLocal(batch int) *Local {
	l := &Local{r: r, counters: map[string]int64{}, Batch: batch}
	l.hasher.SetSeed(seedSet)
	l.Rng = rand.New(rand.NewPCG(r.Seed*0x9E3779B97F4A7C15+uint64(batch), hashString(r.Prop)^uint64(batch)<<20))
	return l
}

func (r *Run) merge(l *Local) {
	// fallback sample: the last case this batch executed (an actual case of this run)
	if l.cur != nil && l.evals > 0 {
		r.mu.Lock()
		need := r.fallbackSamples < 2
		if need {
			r.fallbackSamples++
		}
		r.mu.Unlock()
		if need {
			r.Sample("last-case-of-batch-"+strconv.Itoa(l.Batch), l.cur())
		}
	}
	r.evals.Add(l.evals)
	r.nontrivN.Add(l.nontrivN)
	r.mu.Lock()
	if l.n1 != 0 {
		r.counters["n1"] += l.n1
	}
	if l.n2 != 0 {
		r.counters["n2"] += l.n2
	}
	for k, v := range l.counters {
		r.counters[k] += v
	}
	r.mu.Unlock()
}

func hashString(s string) uint64 {
	var h uint64 = 1469598103934665603
	for i := 0; i < len(s); i++ {
		h ^= uint64(s[i])
		h *= 1099511628211
	}
	return h
}

// Violate records a contradiction of the oracle by a concrete execution.
// key is a stable classification of the witness (used by KNOWN_FINDINGS.txt),
// c the fully spelled-out case (replayable).
func (r *Run) Violate(key, monitor, msg string, c any) {
	n := r.nViol.Add(1)
	r.mu.Lock()
	defer r.mu.Unlock()
	r.violKeys[key]++
	if r.violKeys[key] > 3 || len(r.viols) >= 40 {
		return
	}
	path := ""
	if !r.Replaying() {
		dir := envOr("VERIF_REPLAY_DIR", ".")
		path = filepath.Join(dir, fmt.Sprintf("%s-%s-seed%d-%d.json", r.Prop, r.Phase, r.Seed, n))
		b, err := json.MarshalIndent(map[string]any{
			"property": r.Prop, "monitor": monitor, "seed": r.Seed, "tier": r.Tier, "key": key, "msg": msg, "case": c,
		}, "", " ")
		if err == nil {
			err = os.WriteFile(path, b, 0o644)
		}
		if err != nil {
			path = "unwritable:" + err.Error()
		}
	} else {
		path = os.Getenv("VERIF_REPLAY")
	}
	r.viols = append(r.viols, violation{Key: key, Msg: monitor + ": " + msg, Replay: path})
	fmt.Printf("VIOL %s key=%s monitor=%s %s\n", r.Prop, key, monitor, truncate(msg, 600))
}

func truncate(s string, n int) string {
	if len(s) <= n {
		return s
	}
	return s[:n] + fmt.Sprintf("...(%d bytes)", len(s))
}

// Guard runs f and converts a panic in the code under test into a recorded event.
// It returns true if f panicked.
func (r *Run) Guard(desc func() any, f func()) (panicked bool) {
	defer func() {
		if e := recover(); e != nil {
			panicked = true
			r.mu.Lock()
			r.panics++
			if r.panicSample == "" {
				r.panicSample = fmt.Sprintf("%v\n%s", e, debug.Stack())
			}
			first := r.panics == 1
			r.mu.Unlock()
			if r.Prop == "C17" {
				r.Violate("panic", "recover", fmt.Sprintf("panic: %v", e), desc())
			} else if first {
				fmt.Printf("PANIC in %s: %v\n%s\n", r.Prop, e, debug.Stack())
			}
		}
	}()
	f()
	return false
}

// guardBatch runs one batch; a panic escaping from the code under test ends the
// batch (its remaining cases are lost, which makes the run inconclusive unless
// the property is C17, where the panic itself is the violation).
func (r *Run) guardBatch(l *Local, f func(l *Local)) {
	r.Guard(func() any {
		if l.cur != nil {
			return map[string]any{"batch": l.Batch, "case": l.cur()}
		}
		if l.curA != nil || l.curB != nil {
			return map[string]any{"batch": l.Batch, "a": l.curA, "b": l.curB}
		}
		return map[string]any{"batch": l.Batch}
	}, func() { f(l) })
}

// Parallel runs nBatches batches on all cores. Each batch gets its own PRNG
// determined by (seed, property, batch index); a BEGIN marker is logged first so
// that a process-fatal error can be attributed to a batch.
func (r *Run) Parallel(nBatches int, f func(l *Local)) {
	r.ParallelN(runtime.GOMAXPROCS(0), nBatches, f)
}

func (r *Run) ParallelN(workers, nBatches int, f func(l *Local)) {
	slice := 1
	if s, _ := strconv.Atoi(os.Getenv("VERIF_SLICE")); s > 1 && nBatches >= 32 {
		slice = s
		if nBatches/slice < 8 {
			slice = nBatches / 8
		}
	}
	if workers > nBatches {
		workers = nBatches
	}
	if workers < 1 {
		workers = 1
	}
	var next atomic.Int64
	var wg sync.WaitGroup
	for w := 0; w < workers; w++ {
		wg.Add(1)
		go func() {
			defer wg.Done()
			for {
				b := int(next.Add(1)) - 1
				if b >= nBatches {
					return
				}
				if slice > 1 && b%slice != slice/2 {
					continue
				}
				if r.nViol.Load() > 200 {
					return
				}
				if nBatches <= 4096 || b%64 == 0 {
					r.batchLog.Lock()
					fmt.Printf("BEGIN batch %d\n", b)
					r.batchLog.Unlock()
				}
				l := r.newLocal(b)
				r.guardBatch(l, f)
				r.merge(l)
			}
		}()
	}
	wg.Wait()
}

// Finish writes the result file consumed by the driver.
func (r *Run) Finish(minNontrivial int64) {
	if n := decoyCalls.Load(); n > 0 {
		msg := fmt.Sprintf("a handler that was wrapped by the middleware but never used by the harness was invoked %d time(s): a later Wrap changed what an earlier Wrap returned", n)
		if r.Prop == "C11" {
			r.Violate("wrap-not-pure", "reference-run", msg, nil)
		} else {
			r.Inconclusive(msg)
		}
	}
	r.mu.Lock()
	defer r.mu.Unlock()
	distinct := r.nontrivN.Load() + r.nontriv.size()
	ev := r.evals.Load()
	if !r.Replaying() && r.Phase != "coverage" && distinct < minNontrivial {
		r.inconcl = append(r.inconcl, fmt.Sprintf("monitor observed only %d distinct non-trivial cases (floor %d)", distinct, minNontrivial))
	}
	if len(r.samples) == 0 && !r.Replaying() && r.Phase == "main" {
		r.inconcl = append(r.inconcl, "no sample case was recorded")
	}
	if r.panics > 0 && r.Prop != "C17" {
		r.inconcl = append(r.inconcl, fmt.Sprintf("%d case(s) lost to panics in the code under test, first: %s", r.panics, truncate(r.panicSample, 1500)))
	}
	keys := make([]string, 0, len(r.counters))
	for k := range r.counters {
		keys = append(keys, k)
	}
	sort.Strings(keys)
	observed := map[string]int64{}
	for _, k := range keys {
		observed[k] = r.counters[k]
	}
	cov := map[string]any{
		"evaluations":             ev,
		"distinct_nontrivial":     distinct,
		"distinct_is_lower_bound": r.nontriv.full(),
		"rule":                    r.rule,
		"samples":                 r.samples,
		"exhaustive":              len(r.exhaustive) > 0,
		"exhaustive_parts":        r.exhaustive,
		"observed":                observed,
		"panics_observed":         r.panics,
		"gomaxprocs":              runtime.GOMAXPROCS(0),
		"go_version":              runtime.Version(),
	}
	for k, v := range r.extra {
		cov[k] = v
	}
	out := map[string]any{
		"coverage":         cov,
		"assumptions":      r.assumptions,
		"violations_list":  r.viols,
		"violations_total": r.nViol.Load(),
	}
	if len(r.inconcl) > 0 {
		out["inconclusive"] = fmt.Sprint(r.inconcl)
	}
	b, _ := json.MarshalIndent(out, "", " ")
	if p := os.Getenv("VERIF_RESULT"); p != "" {
		if err := os.WriteFile(p, b, 0o644); err != nil {
			r.t.Fatalf("cannot write result: %v", err)
		}
	} else {
		fmt.Println(string(b))
	}
	fmt.Printf("DONE %s evals=%d distinct=%d violations=%d wall=%.1fs\n", r.Prop, ev, distinct, r.nViol.Load(), time.Since(r.start).Seconds())
}

// LoadReplay returns the "case" member of the replay file, if replaying.
func (r *Run) LoadReplay(monitor *string, dst any) bool {
	p := os.Getenv("VERIF_REPLAY")
	if p == "" {
		return false
	}
	b, err := os.ReadFile(p)
	if err != nil {
		r.t.Fatalf("replay: %v", err)
	}
	var f struct {
		Monitor string          `json:"monitor"`
		Case    json.RawMessage `json:"case"`
	}
	if err := json.Unmarshal(b, &f); err != nil {
		r.t.Fatalf("replay: %v", err)
	}
	if monitor != nil {
		*monitor = f.Monitor
	}
	if dst != nil {
		if err := json.Unmarshal(f.Case, dst); err != nil {
			r.t.Fatalf("replay case: %v", err)
		}
	}
	return true
}

func replayMonitor() string {
	p := os.Getenv("VERIF_REPLAY")
	if p == "" {
		return ""
	}
	b, err := os.ReadFile(p)
	if err != nil {
		return ""
	}
	var f struct {
		Monitor string `json:"monitor"`
	}
	json.Unmarshal(b, &f)
	return f.Monitor
}

// ---------------------------------------------------------------------------
// capped, sharded set of 64-bit hashes

type distinctSet struct {
	shards [64]struct {
		mu sync.Mutex
		m  map[uint64]struct{}
	}
	cap  int64
	n    atomic.Int64
	over atomic.Bool
}

func newDistinctSet(cap int64) *distinctSet {
	d := &distinctSet{cap: cap}
	for i := range d.shards {
		d.shards[i].m = map[uint64]struct{}{}
	}
	return d
}

func (d *distinctSet) add(h uint64) {
	if d.n.Load() >= d.cap {
		d.over.Store(true)
		return
	}
	s := &d.shards[h&63]
	s.mu.Lock()
	if _, ok := s.m[h]; !ok {
		s.m[h] = struct{}{}
		d.n.Add(1)
	}
	s.mu.Unlock()
}

func (d *distinctSet) size() int64 { return d.n.Load() }
func (d *distinctSet) full() bool  { return d.over.Load() }

// ---------------------------------------------------------------------------
// small helpers

func choose[T any](rng *rand.Rand, xs []T) T { return xs[rng.IntN(len(xs))] }

func shuffled[T any](rng *rand.Rand, xs []T) []T {
	out := append([]T(nil), xs...)
	rng.Shuffle(len(out), func(i, j int) { out[i], out[j] = out[j], out[i] })
	return out
}

func jsonStr(v any) string {
	b, _ := json.Marshal(v)
	return string(b)
}
