//go:build verif

package verifharness_test

import (
	"fmt"
	"math/rand/v2"
	"strconv"
	"strings"
)

// Hostile request generators (C03, C10, C16, C17): every header of interest is
// absent, present with zero values, empty, multi-valued, over-long or malformed.

var bigString = strings.Repeat("a", 1<<20)

// allowedInstances returns, for every pattern of the configuration, origins it denotes.
func allowedInstances(pats []PatSpec) []OriginSpec {
	var out []OriginSpec
	for _, p := range pats {
		hosts := []string{p.Host}
		if p.Subs {
			hosts = []string{"a." + p.Host, "b.a." + p.Host}
		}
		ports := []int{p.Port}
		if p.Port == portAny {
			ports = []int{0, 8081}
		}
		for _, h := range hosts {
			for _, pt := range ports {
				out = append(out, OriginSpec{Scheme: p.Scheme, Host: h, IP6: p.IP6, Port: pt})
			}
		}
	}
	return out
}

// hostileOriginValues derives malformed/near-miss Origin values from an allowed origin.
func hostileOriginValues(o OriginSpec) []string {
	s := o.String()
	hostS := o.Host
	if o.IP6 {
		hostS = "[" + o.Host + "]"
	}
	pre := o.Scheme + "://"
	out := []string{
		s,
		pre + strings.ToUpper(hostS),
		strings.ToUpper(s),
		pre + "user@" + hostS,
		pre + "user:pw@" + hostS,
		s + "/", s + "/path", s + "?q=1", s + "#f", s + " ", " " + s, s + "\t", s + ",", s + ", " + s,
		pre + "[" + o.Host + "]",
		pre + "[" + o.Host, pre + o.Host + "]",
		pre + "[evil.org/." + o.Host + "]",
		pre + hostS + ":080", pre + hostS + ":0", pre + hostS + ":65536", pre + hostS + ":123456", pre + hostS + ":", pre + hostS + ":80", pre + hostS + ":443", pre + hostS + ":65535",
		pre + hostS + ":+80", pre + hostS + ":8 0", pre + hostS + ":8080:8080",
		// port numerals that are congruent to an allowed port (or to "no port") modulo 2^64 / 2^32 (lesson of seeded changes C03-p, C08-p)
		pre + hostS + ":18446744073709551616", pre + hostS + ":18446744073709551617", pre + hostS + ":" + u64plus(o.Port), pre + hostS + ":" + u64plus(8080), pre + hostS + ":" + u64plus(443),
		pre + hostS + ":36893488147419103232", pre + hostS + ":4294967296", pre + hostS + ":" + strconv.Itoa(4294967296+max(o.Port, 1)), pre + hostS + ":1" + strings.Repeat("0", 64),
		s + "\x00", pre + "\x00" + hostS, pre + hostS + "\x80", pre + "\xff" + hostS, pre + hostS[:len(hostS)/2] + "\xc3\xa9" + hostS[len(hostS)/2:],
		"null", "", "*", pre, o.Scheme + ":" + hostS, o.Scheme + ":/" + hostS, "//" + hostS, hostS,
		pre + hostS + ".", pre + "." + hostS, pre + strings.Replace(hostS, ".", "..", 1), pre + "a" + hostS, pre + "a." + hostS, pre + hostS + ".evil.org",
		pre + hostS[1:], pre + hostS[:len(hostS)-1],
		"x" + s, s[1:], o.Scheme + "s://" + hostS,
		pre + bigString, s + bigString, pre + hostS + ":" + bigString[:100],
		pre + strings.Repeat("a.", 200) + hostS,
		pre + strings.Repeat("a", 300) + "." + hostS,
	}
	// one byte of the host replaced (last, first, middle) by its neighbours and by structural bytes
	if !o.IP6 && len(o.Host) > 0 {
		for _, pos := range []int{len(o.Host) - 1, 0, len(o.Host) / 2} {
			b := o.Host[pos]
			for _, nb := range []byte{b - 1, b + 1, '.', '-', '0', '9', 'a', 'z', '_'} {
				if nb == b {
					continue
				}
				h := o.Host[:pos] + string(nb) + o.Host[pos+1:]
				v := pre + h
				if o.Port != 0 {
					v += ":" + itoa(o.Port)
				}
				out = append(out, v)
			}
		}
	}
	return out
}

type headerShape int

const (
	shAbsent headerShape = iota
	shZero               // key present, zero values
	shValues
)

// hostileACRM / ACRH / ACRPN value pools
var (
	hostileACRMs = [][]string{nil, {}, {""}, {"GET"}, {"PUT"}, {"put"}, {"Put"}, {"PATCH"}, {"patch"}, {"DELETE"}, {"OPTIONS"}, {"CHICKEN"}, {"chicken"},
		{"CONNECT"}, {"get"}, {"Post"}, {"head"}, {"gET"}, {"options"}, {"PUT", "DELETE"}, {"DELETE", "PUT"}, {"GET", "PUT"}, {"PUT "}, {" PUT"}, {"PUT,DELETE"}, {"*"}, {"\x00"}, {"PUT\x00"}, {"é"}, {bigString}, {"CANARY"}}
	hostileACRPNs = [][]string{nil, nil, nil, {}, {"true"}, {"true"}, {"TRUE"}, {"false"}, {""}, {"true", "false"}, {"false", "true"}, {" true"}, {"1"}}
)

func hostileACRH(rng *rand.Rand, sem *Sem) []string {
	names := sem.discreteHdrNames()
	switch rng.IntN(14) {
	case 0:
		return nil
	case 1:
		return []string{}
	case 2:
		return []string{""}
	case 3:
		return []string{strings.Join(names, ",")}
	case 4:
		if len(names) > 0 {
			return []string{names[rng.IntN(len(names))]}
		}
		return []string{"x-unlisted"}
	case 5:
		return []string{"x-unlisted"}
	case 6:
		return []string{"authorization"}
	case 7:
		return []string{"authorization,content-type,x-listed-1,x-listed-2"}
	case 8:
		return []string{strings.ToUpper(strings.Join(names, ","))}
	case 9:
		return perturbACRH(rng, append([]string{}, names...), 20)
	case 10:
		return []string{bigString}
	case 11:
		return []string{strings.Repeat(",", rng.IntN(40))}
	case 12:
		return []string{mutateBytes(rng, strings.Join(names, ",")+",x")}
	default:
		l := []string{"x-listed-1", "x-listed-2"}
		if rng.IntN(2) == 0 {
			l[0], l[1] = l[1], l[0]
		}
		return l
	}
}

var hostileMethods = []string{"GET", "POST", "PUT", "OPTIONS", "options", "HEAD", "DELETE", "CHICKEN", "", "Options", "PATCH", "CONNECT", "OPTIONS "}

// buildReq assembles a request; nil slices mean "header absent", empty non-nil slices mean "key present with zero values".
func buildReq(method string, origin, acrm, acrh, acrpn []string, extra map[string][]string) Req {
	h := map[string][]string{}
	if origin != nil {
		h[hOrigin] = origin
	}
	if acrm != nil {
		h[hACRM] = acrm
	}
	if acrh != nil {
		h[hACRH] = acrh
	}
	if acrpn != nil {
		h[hACRPN] = acrpn
	}
	for k, v := range extra {
		h[k] = v
	}
	return Req{Method: method, Header: h}
}

func isPreflightReq(q Req) bool {
	return q.Method == "OPTIONS" && len(q.Header[hOrigin]) > 0 && len(q.Header[hACRM]) > 0
}

func firstVal(q Req, k string) (string, bool) {
	v := q.Header[k]
	if len(v) == 0 {
		return "", false
	}
	return v[0], true
}

// randHostileReq draws a request for a configuration.
func randHostileReq(rng *rand.Rand, sem *Sem, origins []string) Req {
	method := hostileMethods[rng.IntN(len(hostileMethods))]
	if rng.IntN(2) == 0 {
		method = "OPTIONS"
	}
	var origin []string
	switch rng.IntN(12) {
	case 0:
		origin = nil
	case 1:
		origin = []string{}
	case 2:
		origin = []string{choose(rng, origins), choose(rng, origins)}
	default:
		origin = []string{choose(rng, origins)}
	}
	acrm := hostileACRMs[rng.IntN(len(hostileACRMs))]
	if rng.IntN(3) == 0 {
		acrm = []string{"PUT"}
	}
	var acrh []string
	if rng.IntN(3) > 0 {
		acrh = hostileACRH(rng, sem)
	}
	acrpn := hostileACRPNs[rng.IntN(len(hostileACRPNs))]
	return buildReq(method, origin, acrm, acrh, acrpn, nil)
}

func sharesPrefix(a string, bs []string, n int) bool {
	for _, b := range bs {
		if len(a) >= n && len(b) >= n && a[:n] == b[:n] {
			return true
		}
	}
	return false
}

// u64plus renders 2^64 + p in decimal.
func u64plus(p int) string {
	if p < 0 {
		p = 0
	}
	const low = 9551616 // 2^64 = 18446744073709551616
	return "1844674407370" + fmt.Sprintf("%07d", low+p)
}
