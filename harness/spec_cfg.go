//go:build verif

package verifharness_test

import (
	"fmt"
	"math"
	"sort"
	"strings"

	"github.com/jub0bs/cors"
)

// S2 (configuration meaning) and S4 (validation spec): configurations are
// assembled from *atoms that carry their ground truth by construction*; the
// oracles read the labels, never the strings, and never call the library.

// ---------------------------------------------------------------------------
// atoms

type OKind int

const (
	oValid OKind = iota
	oStar
	oInvalid
)

type OAtom struct {
	Raw      string  `json:"raw"`
	Kind     OKind   `json:"kind"`
	Spec     PatSpec `json:"spec"`               // for oValid
	Insecure bool    `json:"insecure,omitempty"` // scheme not https, host neither localhost nor loopback IP
	PSL      bool    `json:"psl,omitempty"`      // arbitrary subdomains of a public suffix
	Defect   string  `json:"defect,omitempty"`   // for oInvalid
	Reason   string  `json:"reason,omitempty"`   // pinned Reason for oInvalid ("" = invalid|prohibited)
}

type MKind int

const (
	mValid MKind = iota // allowed as listed (Norm = Fetch-normalised spelling)
	mSafelisted
	mForbidden
	mInvalid
	mStar
)

type MAtom struct {
	Raw  string `json:"raw"`
	Kind MKind  `json:"kind"`
	Norm string `json:"norm,omitempty"`
}

type HKind int

const (
	hValid      HKind = iota
	hAuth             // request side: a spelling of Authorization
	hSafelisted       // response side: CORS-safelisted response-header name
	hForbidden
	hProhibited
	hInvalid
	hStar
)

type HAtom struct {
	Raw   string `json:"raw"`
	Kind  HKind  `json:"kind"`
	Lower string `json:"lower,omitempty"`
}

const (
	pnaOff = iota
	pnaOn
	pnaNoCors
	pnaBoth // invalid: both switches set
)

type CfgSpec struct {
	Origins     []OAtom `json:"origins"`
	Cred        bool    `json:"credentialed"`
	PNA         int     `json:"pna"`
	Methods     []MAtom `json:"methods"`
	ReqHdrs     []HAtom `json:"request_headers"`
	MaxAge      int     `json:"max_age"`
	RespHdrs    []HAtom `json:"response_headers"`
	Status      int     `json:"status"`
	TolInsecure bool    `json:"tolerate_insecure"`
	TolPSL      bool    `json:"tolerate_psl"`
	// NonNilEmpty: lists without elements reach the library as empty non-nil slices (`[]string{}`, what JSON `[]`, a
	// filtered list or `xs[:0]` give) instead of nil (lesson of seeded change C04-n: `patterns == nil` is not `len(patterns) == 0`)
	NonNilEmpty bool `json:"empty_lists_non_nil,omitempty"`
}

func (c *CfgSpec) Config() cors.Config {
	var cfg cors.Config
	for _, a := range c.Origins {
		cfg.Origins = append(cfg.Origins, a.Raw)
	}
	cfg.Credentialed = c.Cred
	for _, a := range c.Methods {
		cfg.Methods = append(cfg.Methods, a.Raw)
	}
	for _, a := range c.ReqHdrs {
		cfg.RequestHeaders = append(cfg.RequestHeaders, a.Raw)
	}
	cfg.MaxAgeInSeconds = c.MaxAge
	for _, a := range c.RespHdrs {
		cfg.ResponseHeaders = append(cfg.ResponseHeaders, a.Raw)
	}
	cfg.PreflightSuccessStatus = c.Status
	cfg.PrivateNetworkAccess = c.PNA == pnaOn || c.PNA == pnaBoth
	cfg.PrivateNetworkAccessInNoCORSModeOnly = c.PNA == pnaNoCors || c.PNA == pnaBoth
	cfg.DangerouslyTolerateInsecureOrigins = c.TolInsecure
	cfg.DangerouslyTolerateSubdomainsOfPublicSuffixes = c.TolPSL
	if c.NonNilEmpty {
		if cfg.Origins == nil {
			cfg.Origins = []string{}
		}
		if cfg.Methods == nil {
			cfg.Methods = make([]string, 0, 4)
		}
		if cfg.RequestHeaders == nil {
			cfg.RequestHeaders = []string{"x"}[:0]
		}
		if cfg.ResponseHeaders == nil {
			cfg.ResponseHeaders = []string{}
		}
	}
	return cfg
}

// cfgJSON renders a cors.Config for messages and samples.
func cfgJSON(cfg *cors.Config) map[string]any {
	if cfg == nil {
		return nil
	}
	return map[string]any{
		"Origins": cfg.Origins, "Credentialed": cfg.Credentialed, "Methods": cfg.Methods,
		"RequestHeaders": cfg.RequestHeaders, "MaxAgeInSeconds": cfg.MaxAgeInSeconds,
		"ResponseHeaders": cfg.ResponseHeaders, "PreflightSuccessStatus": cfg.PreflightSuccessStatus,
		"PrivateNetworkAccess": cfg.PrivateNetworkAccess, "PrivateNetworkAccessInNoCORSModeOnly": cfg.PrivateNetworkAccessInNoCORSModeOnly,
		"DangerouslyTolerateInsecureOrigins":            cfg.DangerouslyTolerateInsecureOrigins,
		"DangerouslyTolerateSubdomainsOfPublicSuffixes": cfg.DangerouslyTolerateSubdomainsOfPublicSuffixes,
	}
}

func cfgString(cfg *cors.Config) string {
	if cfg == nil {
		return "<nil>"
	}
	return fmt.Sprintf("{Origins:%q Cred:%v Methods:%q ReqHdrs:%q MaxAge:%d RespHdrs:%q Status:%d PNA:%v PNAnocors:%v TolInsecure:%v TolPSL:%v}",
		cfg.Origins, cfg.Credentialed, cfg.Methods, cfg.RequestHeaders, cfg.MaxAgeInSeconds, cfg.ResponseHeaders,
		cfg.PreflightSuccessStatus, cfg.PrivateNetworkAccess, cfg.PrivateNetworkAccessInNoCORSModeOnly,
		cfg.DangerouslyTolerateInsecureOrigins, cfg.DangerouslyTolerateSubdomainsOfPublicSuffixes)
}

// ---------------------------------------------------------------------------
// atom constructors

func oPat(p PatSpec, insecure, psl bool) OAtom {
	return OAtom{Raw: p.String(), Kind: oValid, Spec: p, Insecure: insecure, PSL: psl}
}

func oBad(raw, defect, reason string) OAtom {
	return OAtom{Raw: raw, Kind: oInvalid, Defect: defect, Reason: reason}
}

var oStarAtom = OAtom{Raw: "*", Kind: oStar}

// validOriginAtoms: valid by the Config.Origins documentation; labels by construction.
var (
	secureOriginAtoms = []OAtom{
		oPat(PatSpec{Scheme: "https", Host: "example.com"}, false, false),
		oPat(PatSpec{Scheme: "https", Host: "example.com", Port: 8443}, false, false),
		oPat(PatSpec{Scheme: "https", Host: "example.com", Port: portAny}, false, false),
		oPat(PatSpec{Scheme: "https", Subs: true, Host: "example.com"}, false, false),
		oPat(PatSpec{Scheme: "https", Subs: true, Host: "example.com", Port: portAny}, false, false),
		oPat(PatSpec{Scheme: "https", Subs: true, Host: "example.com", Port: 9443}, false, false),
		oPat(PatSpec{Scheme: "https", Host: "example.com."}, false, false),
		oPat(PatSpec{Scheme: "https", Host: "api.example.org"}, false, false),
		oPat(PatSpec{Scheme: "https", Host: "www.xn--xample-9ua.com"}, false, false),
		oPat(PatSpec{Scheme: "https", Subs: true, Host: "example.co.uk"}, false, false),
		oPat(PatSpec{Scheme: "https", Host: "xample.com"}, false, false),
		oPat(PatSpec{Scheme: "https", Host: "a.example.com"}, false, false),
		oPat(PatSpec{Scheme: "http", Host: "localhost"}, false, false),
		oPat(PatSpec{Scheme: "http", Host: "localhost", Port: 8080}, false, false),
		oPat(PatSpec{Scheme: "http", Host: "localhost", Port: portAny}, false, false),
		oPat(PatSpec{Scheme: "http", Host: "127.0.0.1"}, false, false),
		oPat(PatSpec{Scheme: "http", Host: "127.0.0.1", Port: 9090}, false, false),
		oPat(PatSpec{Scheme: "http", Host: "127.1.2.3", Port: portAny}, false, false),
		oPat(PatSpec{Scheme: "http", Host: "::1", IP6: true}, false, false),
		oPat(PatSpec{Scheme: "http", Host: "::1", IP6: true, Port: 9090}, false, false),
		oPat(PatSpec{Scheme: "connector", Host: "localhost"}, false, false),
		// hosts next to PSL wildcard / exception rules (`*.kawasaki.jp`, `!city.kawasaki.jp`, `*.ck`, `!www.ck`):
		// kawasaki.jp and city.kawasaki.jp are NOT public suffixes although foo.kawasaki.jp is (lesson of seeded change C04-h)
		oPat(PatSpec{Scheme: "https", Subs: true, Host: "kawasaki.jp"}, false, false),
		oPat(PatSpec{Scheme: "https", Subs: true, Host: "kawasaki.jp", Port: portAny}, false, false),
		oPat(PatSpec{Scheme: "https", Subs: true, Host: "city.kawasaki.jp"}, false, false),
		oPat(PatSpec{Scheme: "https", Subs: true, Host: "www.ck"}, false, false),
		oPat(PatSpec{Scheme: "https", Host: "foo.kawasaki.jp"}, false, false),
		oPat(PatSpec{Scheme: "https", Host: "xn--4dbc.com"}, false, false), // a valid right-to-left label
		oPat(PatSpec{Scheme: "https", Host: longHost(253) + ".", Port: 65535}, false, false),
		// the smallest and the largest port, next to other ports of the same host (boundary constants, wave 11)
		oPat(PatSpec{Scheme: "https", Host: "example.com", Port: 65535}, false, false),
		oPat(PatSpec{Scheme: "https", Host: "example.com", Port: 1}, false, false),
		oPat(PatSpec{Scheme: "https", Subs: true, Host: "example.com", Port: 65535}, false, false),
		oPat(PatSpec{Scheme: "http", Host: "localhost", Port: 65535}, false, false),
		// a default port of the OTHER well-known scheme is an ordinary port (lesson of seeded change C06-r)
		oPat(PatSpec{Scheme: "https", Host: "example.com", Port: 80}, false, false),
		oPat(PatSpec{Scheme: "https", Subs: true, Host: "example.org", Port: 80}, false, false),
		oPat(PatSpec{Scheme: "http", Host: "localhost", Port: 443}, false, false),
	}
	insecureOriginAtoms = []OAtom{
		oPat(PatSpec{Scheme: "http", Host: "example.com"}, true, false),
		oPat(PatSpec{Scheme: "http", Host: "example.com", Port: 8080}, true, false),
		oPat(PatSpec{Scheme: "http", Subs: true, Host: "example.com"}, true, false),
		oPat(PatSpec{Scheme: "http", Host: "example.com", Port: portAny}, true, false),
		oPat(PatSpec{Scheme: "connector", Host: "example.com"}, true, false),
		oPat(PatSpec{Scheme: "ht", Host: "example.com"}, true, false),
		oPat(PatSpec{Scheme: "httpss", Host: "example.com"}, true, false),
		oPat(PatSpec{Scheme: "http", Host: "192.168.0.1"}, true, false),
		oPat(PatSpec{Scheme: "http", Host: "10.0.0.1", Port: 3000}, true, false),
		oPat(PatSpec{Scheme: "http", Host: "2001:db8::1", IP6: true}, true, false),
		oPat(PatSpec{Scheme: "http", Host: "2001:db8::1", IP6: true, Port: 8080}, true, false),
		oPat(PatSpec{Scheme: "http", Host: "128.0.0.1"}, true, false),
		// every documented maximum at once: 64-byte scheme, 253-byte host plus trailing dot, 5-digit port (327 bytes)
		oPat(PatSpec{Scheme: strings.Repeat("s", 64), Host: longHost(253) + ".", Port: 65535}, true, false),
		oPat(PatSpec{Scheme: strings.Repeat("t", 64), Host: longHost(253), Port: 65535}, true, false),
		// hosts that merely END in localhost / are covered by a broader pattern of the tables
		oPat(PatSpec{Scheme: "http", Host: "a.localhost"}, true, false),
		oPat(PatSpec{Scheme: "http", Host: "a.localhost", Port: 8080}, true, false),
		oPat(PatSpec{Scheme: "http", Subs: true, Host: "a.localhost"}, true, false),
		oPat(PatSpec{Scheme: "http", Host: "a.example.com"}, true, false),
		oPat(PatSpec{Scheme: "http", Subs: true, Host: "a.example.com", Port: 8080}, true, false),
		oPat(PatSpec{Scheme: "http", Host: "example.com", Port: 443}, true, false),
	}
	pslOriginAtoms = []OAtom{
		oPat(PatSpec{Scheme: "https", Subs: true, Host: "com"}, false, true),
		oPat(PatSpec{Scheme: "https", Subs: true, Host: "github.io"}, false, true),
		oPat(PatSpec{Scheme: "https", Subs: true, Host: "co.uk"}, false, true),
		oPat(PatSpec{Scheme: "https", Subs: true, Host: "com."}, false, true),
		oPat(PatSpec{Scheme: "https", Subs: true, Host: "com", Port: 8080}, false, true),
		oPat(PatSpec{Scheme: "https", Subs: true, Host: "com", Port: portAny}, false, true),
		oPat(PatSpec{Scheme: "https", Subs: true, Host: "github.io.", Port: 8443}, false, true),
		oPat(PatSpec{Scheme: "http", Subs: true, Host: "com"}, true, true),
		oPat(PatSpec{Scheme: "http", Subs: true, Host: "org", Port: portAny}, true, true),
		// public suffixes by a PSL wildcard rule, whose parent is not one
		oPat(PatSpec{Scheme: "https", Subs: true, Host: "foo.kawasaki.jp"}, false, true),
		oPat(PatSpec{Scheme: "https", Subs: true, Host: "foo.kawasaki.jp", Port: portAny}, false, true),
		oPat(PatSpec{Scheme: "https", Subs: true, Host: "foo.kawasaki.jp.", Port: 8443}, false, true),
		oPat(PatSpec{Scheme: "https", Subs: true, Host: "foo.ck"}, false, true),
		// internationalised public suffixes of two labels, in the A-label form that patterns must use, and private-section
		// suffixes nested under a registrable domain (lesson of seeded changes C04-q, C08-q)
		oPat(PatSpec{Scheme: "https", Subs: true, Host: "xn--55qx5d.cn"}, false, true),
		oPat(PatSpec{Scheme: "https", Subs: true, Host: "xn--55qx5d.cn.", Port: 8443}, false, true),
		oPat(PatSpec{Scheme: "https", Subs: true, Host: "xn--od0alg.hk"}, false, true),
		oPat(PatSpec{Scheme: "https", Subs: true, Host: "xn--12c1fe0br.xn--o3cw4h", Port: portAny}, false, true),
		oPat(PatSpec{Scheme: "https", Subs: true, Host: "xn--p1ai"}, false, true),
		oPat(PatSpec{Scheme: "https", Subs: true, Host: "s3.amazonaws.com"}, false, true),
		// public suffixes of four, five and six labels - the longest rules of the list (lesson of seeded change C08-r)
		oPat(PatSpec{Scheme: "https", Subs: true, Host: "s3.dualstack.us-east-1.amazonaws.com"}, false, true),
		oPat(PatSpec{Scheme: "https", Subs: true, Host: "s3.cn-north-1.amazonaws.com.cn", Port: portAny}, false, true),
		oPat(PatSpec{Scheme: "https", Subs: true, Host: "cn-north-1.eb.amazonaws.com.cn"}, false, true),
		oPat(PatSpec{Scheme: "https", Subs: true, Host: "s3.dualstack.cn-north-1.amazonaws.com.cn"}, false, true),
		oPat(PatSpec{Scheme: "https", Subs: true, Host: "s3-website.dualstack.cn-north-1.amazonaws.com.cn.", Port: 8443}, false, true),
	}
	// contextOriginAtoms are used only as neighbours of other atoms and only in configurations that set
	// DangerouslyTolerateSubdomainsOfPublicSuffixes (their own public-suffix status is then immaterial): subdomains of
	// localhost, which the library does not deem insecure (grey zone of the documentation; DESIGN.md section 9).
	contextOriginAtoms = []OAtom{
		oPat(PatSpec{Scheme: "http", Subs: true, Host: "localhost"}, false, true),
		oPat(PatSpec{Scheme: "http", Subs: true, Host: "localhost", Port: portAny}, false, true),
	}
	invalidOriginAtoms = []OAtom{
		oBad("", "empty", ""),
		oBad("null", "null", "prohibited"),
		oBad("file:///somepath", "file", "prohibited"),
		oBad("file://example.com", "file", "prohibited"),
		oBad("https://www.résumé.com", "unicode", ""),
		oBad("https://\u212Aelvin.example.com", "unicode", ""),
		oBad("https://ex\u0131t.example.com", "unicode", ""),
		oBad("htt\u017F://example.com", "unicode-scheme", ""),
		oBad("https://example.com:80\u0668", "unicode-port", ""),
		oBad("https://Example.com", "uppercase-host", ""),
		oBad("https://EXAMPLE.COM", "uppercase-host", ""),
		oBad("https://user@example.com", "userinfo", ""),
		oBad("https://user:pw@example.com", "userinfo", ""),
		oBad("https://example.com/", "path", ""),
		oBad("https://example.com/foo", "path", ""),
		oBad("https://example.com?q=1", "query", ""),
		oBad("https://example.com#frag", "fragment", ""),
		oBad(" https://example.com", "whitespace", ""),
		oBad("https://example.com ", "whitespace", ""),
		oBad("https://example.com\t", "whitespace", ""),
		oBad("https://example.com:", "empty-port", ""),
		oBad("https://example.com:0", "zero-port", ""),
		oBad("https://example.com:65536", "port-range", ""),
		oBad("https://example.com:123456", "port-long", ""),
		oBad("https://example.com:18446744073709551616", "port-wraps-to-none", ""),
		oBad("https://example.com:18446744073709551617", "port-wraps-to-1", ""),
		oBad("https://example.com:18446744073709560000", "port-wraps", ""),
		oBad("https://*.example.com:18446744073709559696", "port-wraps", ""),
		oBad("https://example.com:4294967297", "port-wraps-32", ""),
		oBad("https://example.com:1"+strings.Repeat("0", 64), "port-wraps-to-none", ""),
		// Punycode labels that decode to text violating the IDNA Bidi rule (no browser can have such an origin)
		oBad("https://xn--a-0hc.com", "idna-bidi", ""),
		oBad("https://xn--a-zhc.example.com", "idna-bidi", ""),
		oBad("https://1a.xn--4dbc", "idna-bidi", ""),
		oBad("https://example.com:08080", "port-leading-zero", ""),
		oBad("https://example.com:443", "default-port", ""),
		oBad("http://example.com:80", "default-port", ""),
		oBad("https://*.example.com:443", "default-port", ""),
		oBad("http://0x7f.0.0.1", "ip-noncanonical", ""),
		oBad("http://127.0.0.01", "ip-noncanonical", ""),
		oBad("http://127.1", "ip-noncanonical", ""),
		oBad("http://[0:0:0:0:0:0:0:1]", "ip-noncanonical", ""),
		oBad("http://[0:0:0:0:0:0:0:0001]:9090", "ip-noncanonical", ""),
		oBad("http://[0000:0000:0000:0000:0000:0000:0000:0001]:9090", "ip-noncanonical", ""),
		oBad("http://[2001:DB8::1]", "ip-noncanonical", ""),
		oBad("http://[::1%25eth0]", "ip-zone", ""),
		oBad("http://[fe80::1%eth0]", "ip-zone", ""),
		oBad("http://[::ffff:1.2.3.4]", "ip-4in6", ""),
		oBad("http://[::ffff:7f00:1]", "ip-4in6", ""),
		oBad("http://[127.0.0.1]", "ip-bracketed-v4", ""),
		oBad("http://[127.0.0.1]:8080", "ip-bracketed-v4", ""),
		oBad("http://[10.0.0.1]", "ip-bracketed-v4", ""),
		oBad("connector://[255.0.0.0]:1", "ip-bracketed-v4", ""),
		oBad("http://[::1", "ip-bracket", ""),
		oBad("http://::1", "ip-bracket", ""),
		oBad("https://*example.com", "wildcard-misplaced", ""),
		oBad("https://foo.*.example.com", "wildcard-misplaced", ""),
		oBad("https://example.*", "wildcard-misplaced", ""),
		oBad("https://*.*.example.com", "wildcard-misplaced", ""),
		oBad("https://*", "wildcard-misplaced", ""),
		oBad("https://*.", "wildcard-misplaced", ""),
		oBad("https://**.example.com", "wildcard-misplaced", ""),
		oBad("https://example.com:8*", "wildcard-misplaced", ""),
		oBad("https://example.com:*0", "wildcard-misplaced", ""),
		oBad("https://example.com:**", "wildcard-misplaced", ""),
		oBad("*://example.com", "wildcard-misplaced", ""),
		oBad("http://*.127.0.0.1", "wildcard-ip", ""),
		oBad("http://*.[::1]", "wildcard-ip", ""),
		oBad("https://"+longHost(254), "host-too-long", ""),
		oBad("https://"+strings.Repeat("a", 64)+".com", "label-too-long", ""),
		oBad("https://*."+longHost(252), "wildcard-base-too-long", ""),
		oBad(strings.Repeat("s", 65)+"://example.com", "scheme-too-long", ""),
		oBad("Https://example.com", "uppercase-scheme", ""),
		oBad("1http://example.com", "scheme-syntax", ""),
		oBad("https:/example.com", "scheme-sep", ""),
		oBad("https//example.com", "scheme-sep", ""),
		oBad("example.com", "no-scheme", ""),
		oBad("//example.com", "no-scheme", ""),
		oBad("https://", "empty-host", ""),
		oBad("https://.example.com", "empty-label", ""),
		oBad("https://example..com", "empty-label", ""),
		oBad("https://example.com..", "empty-label", ""),
		oBad("https://-example.com", "hyphen-label", ""),
		oBad("https://example-.com", "hyphen-label", ""),
		oBad("https://exa mple.com", "space", ""),
		oBad("https://example.com\x00", "nul", ""),
		oBad("https://example.com,https://example.org", "two-in-one", ""),
	}
)

var (
	validMethodAtoms = []MAtom{
		{"PUT", mValid, "PUT"}, {"PATCH", mValid, "PATCH"}, {"DELETE", mValid, "DELETE"}, {"OPTIONS", mValid, "OPTIONS"},
		{"PURGE", mValid, "PURGE"}, {"patch", mValid, "patch"}, {"put", mValid, "PUT"}, {"Delete", mValid, "DELETE"},
		{"oPtIoNs", mValid, "OPTIONS"}, {"CHICKEN", mValid, "CHICKEN"}, {"Chicken", mValid, "Chicken"}, {"QUERY", mValid, "QUERY"},
		{"OPTIONS-LIST", mValid, "OPTIONS-LIST"}, {"optionsX", mValid, "optionsX"}, {"PUTT", mValid, "PUTT"}, {"putx", mValid, "putx"}, {"DELETED", mValid, "DELETED"},
		{"GETX", mValid, "GETX"}, {"postal", mValid, "postal"}, {"HEADER", mValid, "HEADER"}, {"CONNECTED", mValid, "CONNECTED"}, {"TRACER", mValid, "TRACER"},
		{"PU", mValid, "PU"}, {"M!#$%&'*+.^_`|~", mValid, "M!#$%&'*+.^_`|~"},
		{"LONG64" + strings.Repeat("M", 58), mValid, "LONG64" + strings.Repeat("M", 58)}, {"long130" + strings.Repeat("m", 123), mValid, "long130" + strings.Repeat("m", 123)},
	}
	safelistedMethodAtoms = []MAtom{
		{"GET", mSafelisted, "GET"}, {"HEAD", mSafelisted, "HEAD"}, {"POST", mSafelisted, "POST"}, {"get", mSafelisted, "GET"}, {"Post", mSafelisted, "POST"}, {"head", mSafelisted, "HEAD"},
	}
	forbiddenMethodAtoms = []MAtom{
		{"CONNECT", mForbidden, ""}, {"TRACE", mForbidden, ""}, {"TRACK", mForbidden, ""}, {"connect", mForbidden, ""}, {"Trace", mForbidden, ""}, {"tRaCk", mForbidden, ""},
	}
	invalidMethodAtoms = []MAtom{
		{"", mInvalid, ""}, {"PU T", mInvalid, ""}, {"PUT,PATCH", mInvalid, ""}, {"résumé", mInvalid, ""}, {"PUT\x00", mInvalid, ""}, {"(PUT)", mInvalid, ""},
		{"PUT\n", mInvalid, ""}, {" PUT", mInvalid, ""}, {"PUT/1", mInvalid, ""}, {"\"PUT\"", mInvalid, ""},
		{"\u212AILL", mInvalid, ""}, {"de\u017Fcribe", mInvalid, ""}, {"OPT\u0130ONS", mInvalid, ""}, {"PUT\u4E2D", mInvalid, ""},
	}
	mStarAtom = MAtom{"*", mStar, ""}
)

func hv(raw string) HAtom { return HAtom{raw, hValid, strings.ToLower(raw)} }
func hk(raw string, k HKind) HAtom {
	return HAtom{raw, k, strings.ToLower(raw)}
}

var (
	validReqHdrAtoms = []HAtom{hv("Content-Type"), hv("X-Api-Key"), hv("x-requested-with"), hv("X-LISTED-1"), hv("x-listed-2"),
		hv("Accept"), hv("If-None-Match"), hv("Foo"), hv("x-a"), hv("x-ab"), hv("X"), hv("Access-Control-Foo"),
		hv("X_Request_Id"), hv("x_trace_id"), hv("X^Caret"), hv("X.Dot"), hv("X!#$%&'*+.^_`|~Z"), hv("Accept-Language"), hv("x-9"),
		hv("x-the-quick-brown-fox-jumps-over-a-lazy-dog"), // every letter of the alphabet
		hv("1st-Party-Id"), hv("_csrf-token"), hv("!bang"), hv("~Tilde"), hv("-dash"), hv("9"), // names that do not start with a letter
		// long names (there is no documented length limit): around 64, 128 and 256 bytes
		hv("x-len63-" + strings.Repeat("a", 55)), hv("X-Len64-" + strings.Repeat("b", 56)), hv("x-len65-" + strings.Repeat("c", 57)),
		hv("x-len128-" + strings.Repeat("d", 119)), hv("X-LEN200-" + strings.Repeat("E", 191)), hv("x-len257-" + strings.Repeat("f", 248))}
	authReqHdrAtoms      = []HAtom{hk("Authorization", hAuth), hk("authorization", hAuth), hk("AUTHORIZATION", hAuth), hk("aUtHoRiZaTiOn", hAuth)}
	forbiddenReqHdrAtoms = []HAtom{hk("Cookie", hForbidden), hk("Host", hForbidden), hk("origin", hForbidden), hk("Sec-Fetch-Mode", hForbidden),
		hk("Proxy-Authorization", hForbidden), hk("sec-x", hForbidden), hk("PROXY-foo", hForbidden), hk("Access-Control-Request-Method", hForbidden),
		hk("Access-Control-Request-Headers", hForbidden), hk("Connection", hForbidden), hk("DNT", hForbidden), hk("Set-Cookie", hForbidden),
		hk("accept-charset", hForbidden), hk("Accept-Encoding", hForbidden), hk("Content-Length", hForbidden), hk("cookie2", hForbidden),
		hk("Date", hForbidden), hk("Expect", hForbidden), hk("Keep-Alive", hForbidden), hk("Referer", hForbidden), hk("TE", hForbidden),
		hk("Trailer", hForbidden), hk("Transfer-Encoding", hForbidden), hk("Upgrade", hForbidden), hk("Via", hForbidden), hk("Sec-", hForbidden), hk("proxy-", hForbidden)}
	prohibitedReqHdrAtoms = []HAtom{hk("Access-Control-Allow-Origin", hProhibited), hk("access-control-allow-credentials", hProhibited),
		hk("Access-Control-Allow-Headers", hProhibited), hk("ACCESS-CONTROL-ALLOW-METHODS", hProhibited), hk("Access-Control-Allow-Private-Network", hProhibited),
		hk("Access-Control-Expose-Headers", hProhibited), hk("Access-Control-Max-Age", hProhibited)}
	invalidHdrAtoms = []HAtom{hk("", hInvalid), hk("X Foo", hInvalid), hk("X-Foo:", hInvalid), hk("résumé", hInvalid), hk("a,b", hInvalid),
		hk("X-Foo\x00", hInvalid), hk(" X-Foo", hInvalid), hk("X-Foo ", hInvalid), hk("(x)", hInvalid), hk("x/y", hInvalid), hk("X-Foo\r\n", hInvalid),
		// non-ASCII letters that Unicode case mapping / folding turns into ASCII letters (KELVIN SIGN -> k, I WITH DOT ABOVE -> i,
		// LONG S -> S, DOTLESS I -> I), full-width forms, and runes whose low byte is a token byte (lesson of seeded changes
		// C04-jE and C04-jG: byte-truncating and case-mapping validators)
		hk("X-Api-\u212Aey", hInvalid), hk("\u212A", hInvalid), hk("x-\u0130d", hInvalid), hk("X-Request-\u0131d", hInvalid), hk("\u017Fet-cookie", hInvalid),
		hk("x-\uFF21bc", hInvalid), hk("X-Z\u0142oty", hInvalid), hk("x-\u4E2D", hInvalid), hk("Content-Type\u212A", hInvalid), hk("authorizat\u0131on", hInvalid)}
	hStarAtom = HAtom{"*", hStar, "*"}

	validRespHdrAtoms = []HAtom{hv("X-Response-Time"), hv("ETag"), hv("location"), hv("X-Exposed-1"), hv("x-exposed-2"), hv("Link"), hv("X-A"), hv("x-b"),
		hv("X_Rate_Limit"), hv("X^Up"), hv("X.Y~Z"), hv("X-Sphinx-Of-Black-Quartz-Judge-My-Vow"), hv("x-exp-len64-" + strings.Repeat("g", 52)), hv("X-Exp-Len130-" + strings.Repeat("h", 117))}
	safelistedRespHdrAtoms = []HAtom{hk("Cache-Control", hSafelisted), hk("content-language", hSafelisted), hk("Content-Length", hSafelisted),
		hk("CONTENT-TYPE", hSafelisted), hk("Expires", hSafelisted), hk("Last-Modified", hSafelisted), hk("pragma", hSafelisted)}
	forbiddenRespHdrAtoms  = []HAtom{hk("Set-Cookie", hForbidden), hk("set-cookie2", hForbidden), hk("SET-COOKIE", hForbidden)}
	prohibitedRespHdrAtoms = []HAtom{hk("Origin", hProhibited), hk("Access-Control-Request-Method", hProhibited),
		hk("access-control-request-headers", hProhibited), hk("Access-Control-Request-Private-Network", hProhibited)}
)

var (
	validMaxAges   = []int{0, -1, 1, 5, 600, 86399, 86400}
	invalidMaxAges = []int{-2, -100, 86401, 100000, math.MaxInt32, math.MinInt32, math.MaxInt64, math.MinInt64}
	validStatuses  = []int{0, 200, 201, 204, 250, 299}
	invalidStatus  = []int{1, 100, 199, 300, 304, 403, 404, 500, -1, -204, 1000, 65736, 456, math.MaxInt64, math.MinInt64}
)

// ---------------------------------------------------------------------------
// S4 - expected violations

// ExpErr is one expected leaf error (a key of the multiset).
type ExpErr struct {
	Type   string `json:"type"`             // exported cfgerrors type name
	Value  string `json:"value,omitempty"`  // offending value (strings); ints are rendered in decimal
	Reason string `json:"reason,omitempty"` // "" = not pinned (invalid|prohibited)
	HType  string `json:"htype,omitempty"`  // request | response
}

func (e ExpErr) key() string {
	return e.Type + "\x00" + e.Value + "\x00" + e.Reason + "\x00" + e.HType
}

// violations returns, for every expected error key, the maximum multiplicity
// (= number of occurrences of the offending atom); the minimum is 1.
func (c *CfgSpec) violations() map[ExpErr]int {
	v := map[ExpErr]int{}
	if c.Status != 0 && (c.Status < 200 || c.Status > 299) {
		v[ExpErr{Type: "PreflightSuccessStatusOutOfBoundsError", Value: fmt.Sprint(c.Status)}]++
	}
	if c.PNA == pnaBoth {
		v[ExpErr{Type: "IncompatiblePrivateNetworkAccessModesError"}]++
	}
	pna := c.PNA != pnaOff
	if len(c.Origins) == 0 {
		v[ExpErr{Type: "UnacceptableOriginPatternError", Reason: "missing"}]++
	}
	for _, a := range c.Origins {
		switch a.Kind {
		case oStar:
			if c.Cred {
				v[ExpErr{Type: "IncompatibleOriginPatternError", Value: "*", Reason: "credentialed"}]++
			}
			if pna {
				v[ExpErr{Type: "IncompatibleOriginPatternError", Value: "*", Reason: "pna"}]++
			}
		case oInvalid:
			v[ExpErr{Type: "UnacceptableOriginPatternError", Value: a.Raw, Reason: a.Reason}]++
		case oValid:
			if a.Insecure && !c.TolInsecure {
				if c.Cred {
					v[ExpErr{Type: "IncompatibleOriginPatternError", Value: a.Raw, Reason: "credentialed"}]++
				}
				if pna {
					v[ExpErr{Type: "IncompatibleOriginPatternError", Value: a.Raw, Reason: "pna"}]++
				}
			}
			if a.PSL && !c.TolPSL {
				v[ExpErr{Type: "IncompatibleOriginPatternError", Value: a.Raw, Reason: "psl"}]++
			}
		}
	}
	for _, a := range c.Methods {
		switch a.Kind {
		case mInvalid:
			v[ExpErr{Type: "UnacceptableMethodError", Value: a.Raw, Reason: "invalid"}]++
		case mForbidden:
			v[ExpErr{Type: "UnacceptableMethodError", Value: a.Raw, Reason: "forbidden"}]++
		}
	}
	for _, a := range c.ReqHdrs {
		switch a.Kind {
		case hInvalid:
			v[ExpErr{Type: "UnacceptableHeaderNameError", Value: a.Raw, Reason: "invalid", HType: "request"}]++
		case hForbidden:
			v[ExpErr{Type: "UnacceptableHeaderNameError", Value: a.Raw, Reason: "forbidden", HType: "request"}]++
		case hProhibited:
			v[ExpErr{Type: "UnacceptableHeaderNameError", Value: a.Raw, Reason: "prohibited", HType: "request"}]++
		}
	}
	if c.MaxAge < -1 || c.MaxAge > 86400 {
		v[ExpErr{Type: "MaxAgeOutOfBoundsError", Value: fmt.Sprint(c.MaxAge)}]++
	}
	for _, a := range c.RespHdrs {
		switch a.Kind {
		case hStar:
			if c.Cred {
				v[ExpErr{Type: "IncompatibleWildcardResponseHeaderNameError"}]++
			}
		case hInvalid:
			v[ExpErr{Type: "UnacceptableHeaderNameError", Value: a.Raw, Reason: "invalid", HType: "response"}]++
		case hForbidden:
			v[ExpErr{Type: "UnacceptableHeaderNameError", Value: a.Raw, Reason: "forbidden", HType: "response"}]++
		case hProhibited:
			v[ExpErr{Type: "UnacceptableHeaderNameError", Value: a.Raw, Reason: "prohibited", HType: "response"}]++
		}
	}
	return v
}

func (c *CfgSpec) valid() bool { return len(c.violations()) == 0 }

// ---------------------------------------------------------------------------
// S2 - meaning of a valid configuration

type Sem struct {
	AllowAll   bool
	Pats       []PatSpec
	Cred       bool
	PNA        int
	AnyMethod  bool
	Methods    map[string]bool // Fetch-normalised, safelisted ones excluded
	StarHdrs   bool
	AuthListed bool
	Hdrs       map[string]bool // byte-lowercased, incl. "authorization" when listed
	MaxAge     int
	Status     int // effective success status
	ExposeAll  bool
	Expose     map[string]bool // lower-cased, non-safelisted
	ExposeSafe map[string]bool // lower-cased safelisted names that were listed
}

func (c *CfgSpec) Sem() *Sem {
	s := &Sem{Cred: c.Cred, PNA: c.PNA, Methods: map[string]bool{}, Hdrs: map[string]bool{}, MaxAge: c.MaxAge,
		Expose: map[string]bool{}, ExposeSafe: map[string]bool{}}
	for _, a := range c.Origins {
		switch a.Kind {
		case oStar:
			s.AllowAll = true
		case oValid:
			s.Pats = append(s.Pats, a.Spec)
		}
	}
	for _, a := range c.Methods {
		switch a.Kind {
		case mStar:
			s.AnyMethod = true
		case mValid:
			s.Methods[a.Norm] = true
		}
	}
	for _, a := range c.ReqHdrs {
		switch a.Kind {
		case hStar:
			s.StarHdrs = true
		case hAuth:
			s.AuthListed = true
			s.Hdrs["authorization"] = true
		case hValid:
			s.Hdrs[a.Lower] = true
		}
	}
	for _, a := range c.RespHdrs {
		switch a.Kind {
		case hStar:
			s.ExposeAll = true
		case hValid:
			s.Expose[a.Lower] = true
		case hSafelisted:
			s.ExposeSafe[a.Lower] = true
		}
	}
	s.Status = c.Status
	if s.Status == 0 {
		s.Status = 204
	}
	return s
}

func (s *Sem) originAllowed(o OriginSpec) bool {
	return s.AllowAll || denotesAny(s.Pats, o)
}

// originAllowedRaw: for arbitrary Origin bytes (C03/C16).
func (s *Sem) originAllowedRaw(raw string) bool {
	return matchRawAny(s.Pats, raw)
}

// discreteHdrNames returns the sorted configured discrete request-header names.
func (s *Sem) discreteHdrNames() []string {
	out := make([]string, 0, len(s.Hdrs))
	for h := range s.Hdrs {
		out = append(out, h)
	}
	sort.Strings(out)
	return out
}

// fetchNormalizeMethod is https://fetch.spec.whatwg.org/#concept-method-normalize
func fetchNormalizeMethod(m string) string {
	up := asciiUpper(m)
	switch up {
	case "DELETE", "GET", "HEAD", "OPTIONS", "POST", "PUT":
		return up
	}
	return m
}

func asciiUpper(s string) string {
	b := []byte(s)
	for i, c := range b {
		if c >= 'a' && c <= 'z' {
			b[i] = c - 32
		}
	}
	return string(b)
}

func asciiLower(s string) string {
	b := []byte(s)
	for i, c := range b {
		if c >= 'A' && c <= 'Z' {
			b[i] = c + 32
		}
	}
	return string(b)
}

// Intent is a request a Fetch-compliant browser can be asked to make in cors mode.
type Intent struct {
	Origin    OriginSpec `json:"origin"`
	Method    string     `json:"method"`  // as passed to fetch()
	Headers   []string   `json:"headers"` // author header names (CORS-unsafe), any case
	CredMode  bool       `json:"credentials_include"`
	PNATarget bool       `json:"private_network_target"`
}

// permits is the right-hand side of C02.
func (s *Sem) permits(in *Intent) bool {
	if !s.originAllowed(in.Origin) {
		return false
	}
	if in.CredMode && !s.Cred {
		return false
	}
	if s.PNA == pnaNoCors {
		return false
	}
	if in.PNATarget && s.PNA != pnaOn {
		return false
	}
	m := fetchNormalizeMethod(in.Method)
	if !(m == "GET" || m == "HEAD" || m == "POST" || s.AnyMethod || s.Methods[m]) {
		return false
	}
	for _, h := range in.Headers {
		n := asciiLower(h)
		if s.StarHdrs {
			if n == "authorization" && !(s.Cred || s.AuthListed) {
				return false
			}
			continue
		}
		if !s.Hdrs[n] {
			return false
		}
	}
	return true
}

// relatedOriginAtoms returns the atoms of pool that are structurally related to a: same scheme, and one host is a
// label-wise suffix of the other (or the hosts are equal and the atoms differ in `*.` / port). These are the lists in
// which one pattern covers, or is covered by, another (lesson of seeded change C04-h: anything the implementation
// derives from an EARLIER pattern of the same list).
func relatedOriginAtoms(a OAtom, pool []OAtom) []OAtom {
	if a.Kind != oValid {
		return nil
	}
	var out []OAtom
	ah := strings.TrimSuffix(a.Spec.Host, ".")
	for _, f := range pool {
		if f.Kind != oValid || f.Raw == a.Raw || f.Spec.Scheme != a.Spec.Scheme || f.Spec.IP6 != a.Spec.IP6 {
			continue
		}
		fh := strings.TrimSuffix(f.Spec.Host, ".")
		if ah == fh || strings.HasSuffix(ah, "."+fh) || strings.HasSuffix(fh, "."+ah) {
			out = append(out, f)
		}
	}
	return out
}

// allValidKindOriginAtoms: every atom that is a syntactically valid pattern (conditionally permitted or not).
func allValidKindOriginAtoms() []OAtom {
	return append(append(append([]OAtom{}, secureOriginAtoms...), insecureOriginAtoms...), pslOriginAtoms...)
}

// confusables: spellings of an ASCII name in which one letter is replaced by a non-ASCII letter that Unicode case mapping or
// folding turns into it (k/K -> KELVIN SIGN, i/I -> I WITH DOT ABOVE and DOTLESS I, s/S -> LONG S). None of them is a token:
// each is ONE violation of kind "invalid", whatever name it resembles (lesson of seeded changes C19-o, C05-o, C08-o).
func confusables(name string) []string {
	var out []string
	for i := 0; i < len(name); i++ {
		var reps []string
		switch name[i] {
		case 'k', 'K':
			reps = []string{"\u212A"}
		case 'i', 'I':
			reps = []string{"\u0130", "\u0131"}
		case 's', 'S':
			reps = []string{"\u017F"}
		}
		for _, rep := range reps {
			out = append(out, name[:i]+rep+name[i+1:])
		}
	}
	return out
}

func init() {
	seen := map[string]bool{}
	addH := func(name string) {
		for _, v := range confusables(name) {
			if !seen[v] {
				seen[v] = true
				invalidHdrAtoms = append(invalidHdrAtoms, hk(v, hInvalid))
			}
		}
	}
	for _, tbl := range [][]HAtom{forbiddenReqHdrAtoms[:6], prohibitedReqHdrAtoms[:3], forbiddenRespHdrAtoms, prohibitedRespHdrAtoms, safelistedRespHdrAtoms[:3], authReqHdrAtoms[:1]} {
		for _, a := range tbl {
			addH(a.Raw)
		}
	}
	for _, m := range []string{"POST", "post", "options", "OPTIONS", "TRACK", "track", "Connect", "DELETES", "patchwork", "PurgeS"} {
		for _, v := range confusables(m) {
			invalidMethodAtoms = append(invalidMethodAtoms, MAtom{v, mInvalid, ""})
		}
	}
}
