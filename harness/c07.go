//go:build verif

package verifharness_test

import (
	"fmt"
	"hash/fnv"
	"math/rand/v2"
	"net/http"
	"os"
	"runtime"
	"sort"
	"strconv"
	"strings"
	"sync"
	"sync/atomic"
	"testing"
	"time"

	"github.com/anishathalye/porcupine"
	"github.com/jub0bs/cors"
)

// C07 - reconfiguration is atomic and race-free under concurrent traffic.
// Monitors: M-race (race detector; counted by the driver), M-lin (porcupine over
// client-boundary histories), M-inject (deterministic schedule-point injection).

// ---------------------------------------------------------------------------
// state catalogue: passthrough (0) + 8 configurations that differ in every observable aspect;
// every one allows https://common.example, so that one preflight identifies the configuration.

const c07Invalid = -1

var c07Catalogue = []*cors.Config{
	nil,
	{Origins: []string{"https://common.example", "https://one.example"}, Methods: []string{"PUT"}, RequestHeaders: []string{"X-One"}, MaxAgeInSeconds: 101, ResponseHeaders: []string{"X-Exp-One"}, ExtraConfig: cors.ExtraConfig{PreflightSuccessStatus: 201}},
	{Origins: []string{"https://common.example", "https://*.two.example", "https://two.example:*"}, Credentialed: true, Methods: []string{"DELETE", "PATCH"}, RequestHeaders: []string{"X-Two", "Authorization"}, MaxAgeInSeconds: 202, ResponseHeaders: []string{"X-Exp-Two"}, ExtraConfig: cors.ExtraConfig{PreflightSuccessStatus: 202}},
	{Origins: []string{"*"}, Methods: []string{"CHICKEN"}, RequestHeaders: []string{"X-Three"}, MaxAgeInSeconds: 303, ResponseHeaders: []string{"*"}, ExtraConfig: cors.ExtraConfig{PreflightSuccessStatus: 203}},
	{Origins: []string{"https://common.example"}, Credentialed: true, Methods: []string{"PURGE"}, RequestHeaders: []string{"X-Four"}, MaxAgeInSeconds: -1, ExtraConfig: cors.ExtraConfig{PreflightSuccessStatus: 204, PrivateNetworkAccess: true}},
	{Origins: []string{"https://common.example", "https://five.example"}, Methods: []string{"QUERY"}, RequestHeaders: []string{"X-Five"}, MaxAgeInSeconds: 505, ResponseHeaders: []string{"X-Exp-Five"}, ExtraConfig: cors.ExtraConfig{PreflightSuccessStatus: 205, PrivateNetworkAccessInNoCORSModeOnly: true}},
	{Origins: []string{"https://common.example:*", "https://*.six.example"}, Methods: []string{"LINK"}, RequestHeaders: []string{"X-Six-A", "X-Six-B"}, ResponseHeaders: []string{"X-Exp-Six-A", "X-Exp-Six-B"}, ExtraConfig: cors.ExtraConfig{PreflightSuccessStatus: 206}},
	// 7 EXTENDS configuration 1: every list of 1 is a prefix of the corresponding list of 7 (same switches), with appended origin
	// patterns that share host suffixes with the existing ones - the shape an incremental Reconfigure would special-case
	// (lesson of seeded change C07-h: state shared between the outgoing and the incoming configuration)
	{Origins: []string{"https://common.example", "https://one.example", "https://*.one.example", "https://xone.example", "https://n.example"}, Methods: []string{"PUT", "MOVE"}, RequestHeaders: []string{"X-One", "X-Seven"}, MaxAgeInSeconds: 707, ResponseHeaders: []string{"X-Exp-One", "X-Exp-Seven"}, ExtraConfig: cors.ExtraConfig{PreflightSuccessStatus: 207}},
	// 8 is 2 with its lists permuted and one element dropped from each (a SHRINKING reconfiguration)
	{Origins: []string{"https://*.two.example", "https://common.example"}, Credentialed: true, Methods: []string{"PATCH"}, RequestHeaders: []string{"Authorization"}, MaxAgeInSeconds: 808, ResponseHeaders: []string{"X-Exp-Two"}, ExtraConfig: cors.ExtraConfig{PreflightSuccessStatus: 208}},
}

// c07Related: catalogue entries whose lists extend / shrink one another
var c07Related = map[int]int{1: 7, 7: 1, 2: 8, 8: 2}

var c07InvalidCfg = cors.Config{Origins: []string{"https://common.example", "https://bad origin"}, Methods: []string{"EVIL"}, MaxAgeInSeconds: 909, ExtraConfig: cors.ExtraConfig{PreflightSuccessStatus: 299}}

var c07ReqKinds = []Req{
	buildReq("GET", nil, nil, nil, nil, nil),                                              // 0 non-CORS GET
	actualReq("GET", "https://common.example"),                                            // 1 actual GET, origin allowed everywhere
	actualReq("GET", "https://one.example"),                                               // 2 actual GET, origin allowed by some
	actualReq("OPTIONS", "https://common.example"),                                        // 3 actual OPTIONS
	preflightReq("https://common.example", "GET", nil, false),                             // 4 succeeding preflight
	preflightReq("https://never.invalid.test", "GET", nil, false),                         // 5 preflight failing at the origin step (except allow-all)
	preflightReq("https://common.example", "GET", nil, true),                              // 6 preflight failing at the PNA step where PNA is off
	preflightReq("https://common.example", "UNLISTED", nil, false),                        // 7 preflight failing at the method step
	preflightReq("https://common.example", "GET", []string{"x-unlisted"}, false),          // 8 preflight failing at the header step
	preflightReq("https://common.example", "PUT", []string{"x-one"}, false),               // 9 preflight succeeding for configurations 1 and 7 only
	actualReq("GET", "https://sub.one.example"),                                           // 10 actual GET, origin allowed by configuration 7 only (appended pattern)
	preflightReq("https://sub.one.example", "MOVE", []string{"x-seven"}, false),           // 11 preflight succeeding for configuration 7 only
	preflightReq("https://two.example:8443", "PATCH", []string{"authorization"}, false),   // 12 preflight succeeding for configuration 2 only (pattern dropped by 8)
	actualReq("POST", "https://a.two.example"),                                            // 13 actual POST, origin allowed by 2 and 8
	preflightReq("https://common.example", "PUT", []string{"x-one", "x-unlisted"}, false), // 14 two ACRH lines, the first equal to kind 9's only line: fails everywhere
	preflightReq("https://common.example", "PUT", []string{"x-one", "x-one"}, false),      // 15 repeated line: fails everywhere (not strictly increasing)
}

// operations run sequentially after every injected mini-history
var c07PostOps = []c07Op{{Kind: "req", Arg: 8}, {Kind: "req", Arg: 7}, {Kind: "req", Arg: 4}, {Kind: "req", Arg: 9}, {Kind: "config"}, {Kind: "req", Arg: 1}}

type c07State struct {
	Cfg   int
	Debug bool
}

func (s c07State) String() string { return fmt.Sprintf("(%d,%v)", s.Cfg, s.Debug) }

// op inputs
type c07Op struct {
	Kind string `json:"kind"` // req | reconf | debug | config
	Arg  int    `json:"arg"`  // request kind | catalogue id (c07Invalid for the invalid config) | 0/1
}

func (o c07Op) String() string {
	switch o.Kind {
	case "req":
		return "Request#" + strconv.Itoa(o.Arg)
	case "reconf":
		if o.Arg == c07Invalid {
			return "Reconfigure(invalid)"
		}
		return "Reconfigure(" + strconv.Itoa(o.Arg) + ")"
	case "debug":
		return "SetDebug(" + strconv.FormatBool(o.Arg == 1) + ")"
	}
	return "Config()"
}

type c07Golden struct {
	resp [][2][]string // [cfg][debug][reqKind] digest
	nf   []string      // [cfg] digest of Config()
}

func c07Digest(o Obs) string { return o.String() }

func c07CfgDigest(c *cors.Config) string { return cfgString(c) }

func buildC07Golden(t *testing.T) *c07Golden {
	g := &c07Golden{}
	for id, cfg := range c07Catalogue {
		var row [2][]string
		for d := 0; d < 2; d++ {
			var m *cors.Middleware
			if cfg == nil {
				m = new(cors.Middleware)
			} else {
				var err error
				m, err = cors.NewMiddleware(*cfg)
				if err != nil {
					t.Fatalf("C07 catalogue entry %d rejected: %v", id, err)
				}
				m.SetDebug(d == 1)
			}
			for k := range c07ReqKinds {
				row[d] = append(row[d], c07Exec(m, c07Op{Kind: "req", Arg: k}, nil))
			}
			if d == 0 {
				g.nf = append(g.nf, c07CfgDigest(m.Config()))
			}
		}
		g.resp = append(g.resp, row)
	}
	return g
}

// distinguishability: every pair of states is told apart by at least one request kind or by Config()
func (g *c07Golden) check() string {
	states := []c07State{{0, false}}
	for id := 1; id < len(c07Catalogue); id++ {
		states = append(states, c07State{id, false}, c07State{id, true})
	}
	for i, a := range states {
		for _, b := range states[i+1:] {
			same := true
			for k := range c07ReqKinds {
				if g.get(a, k) != g.get(b, k) {
					same = false
				}
			}
			if same {
				return fmt.Sprintf("states %v and %v are indistinguishable", a, b)
			}
		}
	}
	return ""
}

func (g *c07Golden) get(s c07State, kind int) string {
	d := 0
	if s.Debug {
		d = 1
	}
	return g.resp[s.Cfg][d][kind]
}

// the sequential model (S6 extended with observations)
func (g *c07Golden) model() porcupine.Model {
	return porcupine.Model{
		Init: func() interface{} { return c07State{} }, // overwritten per history through an initial pseudo-operation
		Step: func(state, input, output interface{}) (bool, interface{}) {
			s := state.(c07State)
			in := input.(c07Op)
			out := output.(string)
			switch in.Kind {
			case "init":
				return true, c07State{in.Arg >> 1, in.Arg&1 == 1}
			case "req":
				return out == g.get(s, in.Arg), s
			case "config":
				return out == g.nf[s.Cfg], s
			case "debug":
				return true, c07State{s.Cfg, in.Arg == 1 && s.Cfg != 0}
			case "reconf":
				if in.Arg == c07Invalid {
					return out == "error", s
				}
				if out != "ok" {
					return false, s
				}
				if in.Arg == 0 {
					return true, c07State{0, false}
				}
				return true, c07State{in.Arg, s.Debug}
			}
			return false, s
		},
		Equal: func(a, b interface{}) bool { return a.(c07State) == b.(c07State) },
		DescribeOperation: func(input, output interface{}) string {
			return input.(c07Op).String() + " -> " + truncate(output.(string), 80)
		},
	}
}

// ---------------------------------------------------------------------------
// recording operations at the client boundary

var c07Clock atomic.Int64

type c07Rec struct {
	Client int    `json:"client"`
	Op     c07Op  `json:"op"`
	Call   int64  `json:"call"`
	Ret    int64  `json:"return"`
	Out    string `json:"output"`
}

type c07Sched interface {
	hit(point string) // called at every schedule point on the goroutine executing an operation
}

// c07Writer is the harness-supplied ResponseWriter whose methods are schedule points.
type c07Writer struct {
	rw
	sched c07Sched
	nHdr  int
}

func (w *c07Writer) Header() http.Header {
	w.nHdr++
	if w.sched != nil {
		w.sched.hit("Header#" + strconv.Itoa(w.nHdr))
	}
	return w.rw.Header()
}
func (w *c07Writer) WriteHeader(s int) {
	if w.sched != nil {
		w.sched.hit("WriteHeader:before")
	}
	w.rw.WriteHeader(s)
	if w.sched != nil {
		w.sched.hit("WriteHeader:after")
	}
}
func (w *c07Writer) Write(b []byte) (int, error) {
	if w.sched != nil {
		w.sched.hit("Write")
	}
	return w.rw.Write(b)
}

type c07Handler struct {
	sched  c07Sched
	calls  int
	marker string
}

var c07MarkerSeq atomic.Int64

func (h *c07Handler) ServeHTTP(w http.ResponseWriter, r *http.Request) {
	h.calls++
	if h.sched != nil {
		h.sched.hit("handler:entry")
	}
	// a handler reads what it can reach (matters for the race detector)
	n := 0
	for _, v := range r.Header {
		for _, s := range v {
			n += len(s)
		}
	}
	for _, v := range w.Header() {
		for _, s := range v {
			n += len(s)
		}
	}
	// ... and adds a field line of its own to every header that is already there (append-only, as handlers do with
	// Vary or Access-Control-Expose-Headers); the marker is unique per exchange, the digest shows it as "<own-marker>":
	// another exchange's marker in this response means that two exchanges share a header slice
	// (lesson of seeded change C07-i: a per-configuration slice with spare capacity handed to the wrapped handler)
	if h.marker != "" {
		hdr := w.Header()
		for k, v := range hdr {
			if len(v) > 0 {
				hdr[k] = append(v, h.marker)
			}
		}
		if h.sched != nil {
			h.sched.hit("handler:after-add")
		}
	}
	w.Write([]byte("ok"))
	if h.sched != nil {
		h.sched.hit("handler:exit")
	}
	_ = n
}

// c07Exec performs op on m and returns its output digest.
func c07Exec(m *cors.Middleware, op c07Op, sched c07Sched) string {
	switch op.Kind {
	case "req":
		w := &c07Writer{rw: rw{h: http.Header{}}, sched: sched}
		h := &c07Handler{sched: sched, marker: "verif-marker-" + strconv.FormatInt(c07MarkerSeq.Add(1), 10)}
		w.rw.inner = h
		wrappedOnce(m).ServeHTTP(w, c07ReqKinds[op.Arg].httpReq())
		return strings.ReplaceAll(c07Digest(w.obs(h.calls)), h.marker, "<own-marker>")
	case "reconf":
		var err error
		switch op.Arg {
		case c07Invalid:
			c := c07InvalidCfg
			c.Origins = append([]string(nil), c.Origins...)
			err = m.Reconfigure(&c)
		case 0:
			err = m.Reconfigure(nil)
		default:
			c := *c07Catalogue[op.Arg]
			err = m.Reconfigure(&c)
		}
		if err != nil {
			return "error"
		}
		return "ok"
	case "debug":
		m.SetDebug(op.Arg == 1)
		return "ok"
	case "config":
		return c07CfgDigest(m.Config())
	}
	return "?"
}

func c07NewInState(s c07State) *cors.Middleware {
	if s.Cfg == 0 {
		return new(cors.Middleware)
	}
	m, err := cors.NewMiddleware(*c07Catalogue[s.Cfg])
	if err != nil {
		panic(err)
	}
	m.SetDebug(s.Debug)
	return m
}

func c07ToPorcupine(init c07State, recs []c07Rec) []porcupine.Operation {
	ops := make([]porcupine.Operation, 0, len(recs)+1)
	a := init.Cfg << 1
	if init.Debug {
		a |= 1
	}
	ops = append(ops, porcupine.Operation{ClientId: 0, Input: c07Op{Kind: "init", Arg: a}, Call: -2, Output: "", Return: -1})
	for _, r := range recs {
		ops = append(ops, porcupine.Operation{ClientId: r.Client + 1, Input: r.Op, Call: r.Call, Output: r.Out, Return: r.Ret})
	}
	return ops
}

type c07Case struct {
	Monitor string   `json:"monitor"`
	Init    c07State `json:"initial_state"`
	Outer   *c07Op   `json:"outer,omitempty"`
	Inner   []c07Op  `json:"inner,omitempty"`
	Point   int      `json:"point,omitempty"`
	Where   string   `json:"where,omitempty"`
	History []c07Rec `json:"history"`
	Legal   []string `json:"legal_outputs_of_outer,omitempty"`
}

// ---------------------------------------------------------------------------
// M-inject

type injectSched struct {
	target    int
	count     int
	points    []string
	firedAt   string
	injecting atomic.Bool
	fire      func()
}

func (s *injectSched) hit(point string) {
	// before the injection only the outer operation's goroutine runs; once it has fired, later
	// schedule points (of the outer operation and of still-running injected operations) are ignored
	if s.injecting.Load() {
		return
	}
	idx := s.count
	s.count++
	s.points = append(s.points, point)
	if idx == s.target && s.fire != nil {
		s.firedAt = point
		s.injecting.Store(true) // stays set: nothing is counted or injected after this point
		s.fire()
	}
}

type c07InjectStats struct {
	triples   map[string]bool
	points    map[string]bool
	blocked   int
	histories int
	illegal   int
	unknown   int
}

// c07Inject runs outer from state init, executing inner (sequentially, on another goroutine, awaited
// for a bounded time) at the target-th schedule point of outer. It returns the number of schedule points seen.
func c07Inject(r *Run, l *Local, g *c07Golden, model porcupine.Model, init c07State, outer c07Op, inner []c07Op, target int, st *c07InjectStats) int {
	m := c07NewInState(init)
	var recs []c07Rec
	var mu sync.Mutex
	var pending chan struct{}
	sched := &injectSched{target: target}
	blocked := false
	sched.fire = func() {
		done := make(chan struct{})
		pending = done
		go func() {
			defer close(done)
			for _, op := range inner {
				c := c07Clock.Add(1)
				out := c07Exec(m, op, nil)
				ret := c07Clock.Add(1)
				mu.Lock()
				recs = append(recs, c07Rec{Client: 1, Op: op, Call: c, Ret: ret, Out: out})
				mu.Unlock()
			}
		}()
		select {
		case <-done:
		case <-time.After(150 * time.Millisecond):
			blocked = true // the injected operations cannot finish while outer is paused here: resume outer
		}
	}
	if yieldBuild {
		setYieldHook(func(id int, where string) { sched.hit("yield:" + where) })
	}
	call := c07Clock.Add(1)
	out := c07Exec(m, outer, sched)
	ret := c07Clock.Add(1)
	if yieldBuild {
		setYieldHook(nil)
	}
	if pending != nil {
		select {
		case <-pending:
		case <-time.After(20 * time.Second):
			r.Inconclusive(fmt.Sprintf("M-inject: injected operations %v never returned (outer %v at %s)", inner, outer, sched.firedAt))
			return sched.count
		}
	}
	if target < 0 || sched.firedAt == "" {
		return sched.count
	}
	mu.Lock()
	recs = append(recs, c07Rec{Client: 0, Op: outer, Call: call, Ret: ret, Out: out})
	mu.Unlock()
	// afterwards, sequentially: what the injection left behind must be the state the model ends in
	// (a request that publishes stale data *after* the injected operations only shows in later answers)
	for _, op := range c07PostOps {
		c := c07Clock.Add(1)
		o := c07Exec(m, op, nil)
		rt := c07Clock.Add(1)
		recs = append(recs, c07Rec{Client: 2, Op: op, Call: c, Ret: rt, Out: o})
	}
	l.evals += int64(len(c07PostOps))
	l.evals++
	st.histories++
	if blocked {
		st.blocked++
	}
	st.points[sched.firedAt] = true
	st.triples[outer.String()+"@"+sched.firedAt+"<-"+fmt.Sprint(inner)] = true
	res := porcupine.CheckOperationsTimeout(model, c07ToPorcupine(init, recs), 30*time.Second)
	switch res {
	case porcupine.Illegal:
		st.illegal++
		cs := c07Case{Monitor: "M-inject", Init: init, Outer: &outer, Inner: inner, Point: target, Where: sched.firedAt, History: recs}
		key := "mixed-or-stale-state"
		r.Violate(key, "M-inject", fmt.Sprintf("from state %v, %v with %v injected at schedule point %q: the history is not linearizable w.r.t. the (configuration, debug) state machine: %s",
			init, outer, inner, sched.firedAt, c07Describe(recs)), cs)
	case porcupine.Unknown:
		st.unknown++
	}
	return sched.count
}

func c07Describe(recs []c07Rec) string {
	sorted := append([]c07Rec(nil), recs...)
	sort.Slice(sorted, func(i, j int) bool { return sorted[i].Call < sorted[j].Call })
	var sb strings.Builder
	for _, r := range sorted {
		sb.WriteString(fmt.Sprintf("[c%d %d..%d %s -> %s] ", r.Client, r.Call, r.Ret, r.Op, truncate(r.Out, 160)))
	}
	return sb.String()
}

// ---------------------------------------------------------------------------
// M-lin: stress histories

type stressProfile struct {
	name string
	f    func(id int, where string)
}

var yieldCounter atomic.Uint64

func c07Profiles() []stressProfile {
	mix := func(x uint64) uint64 {
		x ^= x >> 33
		x *= 0xff51afd7ed558ccd
		x ^= x >> 33
		return x
	}
	return []stressProfile{
		{"gosched", func(int, string) {
			if mix(yieldCounter.Add(1))%3 == 0 {
				runtime.Gosched()
			}
		}},
		{"sleep", func(int, string) {
			switch v := mix(yieldCounter.Add(1)) % 16; {
			case v < 4:
				runtime.Gosched()
			case v < 6:
				time.Sleep(time.Duration(1+v) * time.Microsecond)
			case v == 7:
				time.Sleep(50 * time.Microsecond)
			}
		}},
		{"none", nil},
	}
}

type c07StressStats struct {
	mu            sync.Mutex
	interleavings map[uint64]bool
	states        map[string]bool
	overlapping   int64
	requests      int64
	ok, illegal   int
	unknown       int
}

func c07StressHistory(r *Run, l *Local, g *c07Golden, model porcupine.Model, rng *rand.Rand, clients, opsPer int, st *c07StressStats) {
	init := c07State{rng.IntN(len(c07Catalogue)), false}
	if init.Cfg != 0 && rng.IntN(2) == 0 {
		init.Debug = true
	}
	m := c07NewInState(init)
	recs := make([][]c07Rec, clients)
	var wg sync.WaitGroup
	start := make(chan struct{})
	for c := 0; c < clients; c++ {
		wg.Add(1)
		seed := rng.Uint64()
		go func(c int) {
			defer wg.Done()
			lr := rand.New(rand.NewPCG(seed, uint64(c)))
			writer := c < 2+lr.IntN(2)
			<-start
			for i := 0; i < opsPer; i++ {
				var op c07Op
				switch v := lr.IntN(100); {
				case writer && v < 45:
					arg := lr.IntN(len(c07Catalogue))
					if lr.IntN(8) == 0 {
						arg = c07Invalid
					}
					op = c07Op{Kind: "reconf", Arg: arg}
				case writer && v < 70:
					op = c07Op{Kind: "debug", Arg: lr.IntN(2)}
				case v < 12:
					op = c07Op{Kind: "config"}
				default:
					op = c07Op{Kind: "req", Arg: lr.IntN(len(c07ReqKinds))}
				}
				call := c07Clock.Add(1)
				out := c07Exec(m, op, nil)
				ret := c07Clock.Add(1)
				recs[c] = append(recs[c], c07Rec{Client: c, Op: op, Call: call, Ret: ret, Out: out})
			}
		}(c)
	}
	close(start)
	wg.Wait()
	var all []c07Rec
	for _, rs := range recs {
		all = append(all, rs...)
	}
	l.evals += int64(len(all))
	res := porcupine.CheckOperationsTimeout(model, c07ToPorcupine(init, all), 30*time.Second)
	// what was observed
	sort.Slice(all, func(i, j int) bool { return all[i].Call < all[j].Call })
	h := fnv.New64a()
	type ev struct {
		t int64
		s string
	}
	var evs []ev
	var writers []c07Rec
	for _, x := range all {
		evs = append(evs, ev{x.Call, "c" + x.Op.String()}, ev{x.Ret, "r" + x.Op.String()})
		if x.Op.Kind == "reconf" || x.Op.Kind == "debug" {
			writers = append(writers, x)
		}
	}
	sort.Slice(evs, func(i, j int) bool { return evs[i].t < evs[j].t })
	for _, e := range evs {
		h.Write([]byte(e.s))
	}
	overlap, reqs := int64(0), int64(0)
	for _, x := range all {
		if x.Op.Kind != "req" && x.Op.Kind != "config" {
			continue
		}
		reqs++
		for _, w := range writers {
			if w.Call < x.Ret && x.Call < w.Ret {
				overlap++
				break
			}
		}
	}
	st.mu.Lock()
	st.interleavings[h.Sum64()] = true
	st.overlapping += overlap
	st.requests += reqs
	switch res {
	case porcupine.Ok:
		st.ok++
	case porcupine.Illegal:
		st.illegal++
	default:
		st.unknown++
	}
	st.mu.Unlock()
	if res == porcupine.Illegal {
		r.Violate("not-linearizable", "M-lin", fmt.Sprintf("stress history from state %v (%d clients x %d operations) is not linearizable w.r.t. the (configuration, debug) state machine; first operations: %s",
			init, clients, opsPer, truncate(c07Describe(all), 1500)), c07Case{Monitor: "M-lin", Init: init, History: all})
	}
}

// ---------------------------------------------------------------------------

func TestVerif_C07(t *testing.T) {
	r := newRun(t, "C07")
	r.Rule("M-inject: every start state (passthrough + 8 configurations x debug, two of them extending / shrinking another entry list by list) x every outer operation (16 request kinds, Reconfigure to each catalogue entry / nil / invalid, SetDebug, Config) x inner operation sequences (single writers, Config, requests, and 2-3 operation sequences such as Reconfigure(nil);Reconfigure(B)) injected at every schedule point of the outer operation " +
		"(k-th Header() call, WriteHeader, Write, handler entry/exit, and the lock-boundary yield points generated from the current text of /repo); M-lin: stress histories (8 clients x 25 operations on one middleware, GOMAXPROCS 2/4/16, three yield-hook profiles) under -race; every history is checked by porcupine against the sequential (configuration, debug) model with golden responses. " +
		"evaluation = one recorded operation; non-trivial = distinct (outer operation, injection point, inner sequence) triples plus distinct stress interleavings (hash of the ticket-ordered call/return sequence)")
	r.Assume("operations are recorded at the client boundary with tickets from one atomic counter; golden responses and Config() normal forms are computed sequentially on fresh middlewares beforehand; responses identify their state (all 13 states are pairwise distinguishable)")

	g := buildC07Golden(t)
	if why := g.check(); why != "" {
		t.Fatalf("C07 catalogue: %s", why)
	}
	model := g.model()
	yp, _ := strconv.Atoi(os.Getenv("VERIF_YIELD_POINTS"))
	r.Set("yield_points_in_source", yp)
	r.Set("yield_build", yieldBuild)

	var rc c07Case
	if r.LoadReplay(nil, &rc) {
		l := r.newLocal(0)
		st := &c07InjectStats{triples: map[string]bool{}, points: map[string]bool{}}
		if rc.Monitor == "M-inject" && rc.Outer != nil {
			c07Inject(r, l, g, model, rc.Init, *rc.Outer, rc.Inner, rc.Point, st)
		} else {
			// a recorded stress history cannot be re-executed deterministically: the recorded history is re-checked for
			// information, and the stress workload is re-run (same shape, all yield profiles) against the current tree;
			// only a freshly produced illegal history counts
			if porcupine.CheckOperationsTimeout(model, c07ToPorcupine(rc.Init, rc.History), 60*time.Second) == porcupine.Illegal {
				fmt.Println("replay: the recorded history is indeed not linearizable; re-running the stress workload")
			}
			sst := &c07StressStats{interleavings: map[uint64]bool{}, states: map[string]bool{}}
			for _, prof := range c07Profiles() {
				if yieldBuild {
					setYieldHook(prof.f)
				}
				r.ParallelN(8, 8, func(l *Local) {
					for i := 0; i < 40; i++ {
						c07StressHistory(r, l, g, model, l.Rng, 8, 25, sst)
					}
				})
			}
			setYieldHook(nil)
		}
		r.merge(l)
		r.Finish(0)
		return
	}

	// ---- M-inject (single-threaded: the yield hook is process-global)
	states := []c07State{{0, false}}
	for id := 1; id < len(c07Catalogue); id++ {
		states = append(states, c07State{id, false}, c07State{id, true})
	}
	var outers []c07Op
	for k := range c07ReqKinds {
		outers = append(outers, c07Op{Kind: "req", Arg: k})
	}
	for id := range c07Catalogue {
		outers = append(outers, c07Op{Kind: "reconf", Arg: id})
	}
	outers = append(outers, c07Op{Kind: "reconf", Arg: c07Invalid}, c07Op{Kind: "debug", Arg: 1}, c07Op{Kind: "debug", Arg: 0}, c07Op{Kind: "config"})
	innersFor := func(s c07State) [][]c07Op {
		other := 1 + s.Cfg%(len(c07Catalogue)-1)
		third := 1 + (s.Cfg+2)%(len(c07Catalogue)-1)
		same := s.Cfg
		in := [][]c07Op{
			{{Kind: "reconf", Arg: 0}}, {{Kind: "reconf", Arg: other}}, {{Kind: "reconf", Arg: third}}, {{Kind: "reconf", Arg: c07Invalid}},
			{{Kind: "debug", Arg: 1}}, {{Kind: "debug", Arg: 0}}, {{Kind: "config"}},
			{{Kind: "req", Arg: 7}}, {{Kind: "req", Arg: 4}},
			{{Kind: "reconf", Arg: 0}, {Kind: "reconf", Arg: other}},
			{{Kind: "reconf", Arg: 0}, {Kind: "reconf", Arg: other}, {Kind: "debug", Arg: 1}},
			{{Kind: "debug", Arg: 1}, {Kind: "reconf", Arg: other}},
			{{Kind: "reconf", Arg: other}, {Kind: "debug", Arg: 1}},
			{{Kind: "reconf", Arg: other}, {Kind: "debug", Arg: 0}},
			{{Kind: "reconf", Arg: other}, {Kind: "reconf", Arg: third}, {Kind: "req", Arg: 7}},
		}
		if rel, ok := c07Related[s.Cfg]; ok { // the entry that extends / shrinks the current one
			in = append(in, []c07Op{{Kind: "reconf", Arg: rel}},
				[]c07Op{{Kind: "reconf", Arg: rel}, {Kind: "reconf", Arg: same}},
				[]c07Op{{Kind: "debug", Arg: 1 - b2i(s.Debug)}, {Kind: "reconf", Arg: rel}})
		}
		if same != 0 {
			in = append(in, []c07Op{{Kind: "reconf", Arg: 0}, {Kind: "reconf", Arg: same}},
				[]c07Op{{Kind: "reconf", Arg: 0}, {Kind: "reconf", Arg: same}, {Kind: "debug", Arg: 1}},
				[]c07Op{{Kind: "debug", Arg: 1 - b2i(s.Debug)}, {Kind: "req", Arg: 7}})
		}
		return in
	}
	ist := &c07InjectStats{triples: map[string]bool{}, points: map[string]bool{}}
	pointNames := map[string]bool{}
	l := r.newLocal(0)
	r.guardBatch(l, func(l *Local) {
		for _, s := range states {
			for _, outer := range outers {
				// dry run: how many schedule points does this operation pass?
				n := c07Inject(r, l, g, model, s, outer, nil, -1, ist)
				for _, inner := range innersFor(s) {
					for k := 0; k < n; k++ {
						l.cur = func() any { return c07Case{Monitor: "M-inject", Init: s, Outer: &outer, Inner: inner, Point: k} }
						c07Inject(r, l, g, model, s, outer, inner, k, ist)
						if r.nViol.Load() > 60 {
							return
						}
					}
				}
			}
		}
	})
	for p := range ist.points {
		pointNames[p] = true
	}
	l.nontrivN += int64(len(ist.triples))
	r.merge(l)
	var pn []string
	for p := range pointNames {
		pn = append(pn, p)
	}
	sort.Strings(pn)
	r.Set("inject_histories", ist.histories)
	r.Set("inject_distinct_triples", len(ist.triples))
	r.Set("inject_schedule_points_used", pn)
	r.Set("inject_blocked_writers", ist.blocked)
	r.Set("inject_illegal", ist.illegal)
	r.Set("inject_unknown", ist.unknown)
	r.Exhaustive("M-inject: every start state x outer operation x inner sequence x schedule point on the outer operation's path")
	if ist.histories == 0 {
		r.Inconclusive("M-inject observed no schedule point")
	}
	if yieldBuild && yp > 0 {
		seen := 0
		for p := range pointNames {
			if strings.HasPrefix(p, "yield:") {
				seen++
			}
		}
		if seen == 0 {
			r.Inconclusive("yield points were generated but none was reached")
		}
	}

	// ---- M-lin: stress
	sst := &c07StressStats{interleavings: map[uint64]bool{}, states: map[string]bool{}}
	nHist := pick(r, 300, 20000)
	old := runtime.GOMAXPROCS(0)
	profiles := c07Profiles()
	rounds := 0
	for _, procs := range []int{2, 4, 16} {
		for _, prof := range profiles {
			runtime.GOMAXPROCS(procs)
			if yieldBuild {
				setYieldHook(prof.f)
			}
			rounds++
			per := nHist / 9
			r.ParallelN(max(2, procs/2), 8, func(l *Local) {
				for i := 0; i < per/8+1; i++ {
					c07StressHistory(r, l, g, model, l.Rng, 8, 25, sst)
				}
			})
		}
	}
	runtime.GOMAXPROCS(old)
	setYieldHook(nil)
	r.nontrivN.Add(int64(len(sst.interleavings)))
	r.Set("stress_histories_ok", sst.ok)
	r.Set("stress_histories_illegal", sst.illegal)
	r.Set("stress_histories_unknown", sst.unknown)
	r.Set("stress_distinct_interleavings", len(sst.interleavings))
	r.Set("stress_reads_overlapping_a_writer", sst.overlapping)
	r.Set("stress_reads_total", sst.requests)
	r.Set("stress_rounds", rounds)
	if tot := sst.ok + sst.illegal + sst.unknown; tot > 0 && sst.unknown*20 > tot {
		r.Inconclusive(fmt.Sprintf("porcupine returned Unknown for %d of %d stress histories", sst.unknown, tot))
	}
	if sst.overlapping == 0 {
		r.Inconclusive("no request overlapped a writer in the stress histories")
	}
	r.Sample("inject", map[string]any{"start_state": "(1,true)", "outer": "Request#7", "inner": "[Reconfigure(0)]", "point": "Header#1", "legal_outputs": []string{"G[(1,true)][7]", "G[(0,false)][7]"}})
	r.Finish(1000)
}

func b2i(b bool) int {
	if b {
		return 1
	}
	return 0
}
