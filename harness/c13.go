//go:build verif

package verifharness_test

import (
	"fmt"
	"math/rand/v2"
	"strconv"
	"strings"
	"testing"

	"github.com/jub0bs/cors"
	"github.com/jub0bs/cors/cfgerrors"
	"github.com/jub0bs/cors/internal/origins"
)

// C13 - origin-pattern grammar: generator with ground truth by construction.

type c13Case struct {
	Pattern string `json:"pattern"`
	// List (optional): the pattern is configured together with these other patterns of the documented form
	// (variants of it on the same host with other schemes and ports, and unrelated ones), in this order
	List   []string `json:"list,omitempty"`
	Valid  bool     `json:"valid_by_construction"`
	Defect string   `json:"defect,omitempty"`
	Shape  string   `json:"shape,omitempty"`
}

const (
	ldhFirst = "abcdefghijklmnopqrstuvwxyz0123456789"
	ldhMid   = "abcdefghijklmnopqrstuvwxyz0123456789-"
	letters  = "abcdefghijklmnopqrstuvwxyz"
)

func genLabel(rng *rand.Rand, n int, startLetter bool) string {
	b := make([]byte, n)
	for i := range b {
		switch {
		case i == 0 && startLetter:
			b[i] = letters[rng.IntN(len(letters))]
		case i == 0 || i == n-1:
			b[i] = ldhFirst[rng.IntN(len(ldhFirst))]
		case i == 2 || i == 3: // no hyphens in positions 3-4 (grey zone)
			b[i] = ldhFirst[rng.IntN(len(ldhFirst))]
		default:
			b[i] = ldhMid[rng.IntN(len(ldhMid))]
		}
	}
	return string(b)
}

// genDomain returns a domain of exactly total bytes (total >= 1), last label starting with a letter.
func genDomain(rng *rand.Rand, total int) string {
	var lens []int
	rem := total
	for rem > 0 {
		maxL := min(63, rem)
		l := 1 + rng.IntN(maxL)
		if rng.IntN(4) == 0 {
			l = maxL
		}
		if rem-l == 1 { // a single left-over byte cannot hold "." + a label
			if l < 63 {
				l++
			} else {
				l--
			}
		}
		lens = append(lens, l)
		rem -= l
		if rem > 0 {
			rem-- // separator
		}
	}
	out := make([]string, len(lens))
	for i, l := range lens {
		out[i] = genLabel(rng, l, i == len(lens)-1)
	}
	return strings.Join(out, ".")
}

func genScheme(rng *rand.Rand, n int) string {
	const later = "abcdefghijklmnopqrstuvwxyz0123456789+.-"
	for {
		b := make([]byte, n)
		b[0] = letters[rng.IntN(26)]
		for i := 1; i < n; i++ {
			if rng.IntN(3) == 0 {
				b[i] = later[rng.IntN(len(later))]
			} else {
				b[i] = letters[rng.IntN(26)]
			}
		}
		if s := string(b); s != "file" {
			return s
		}
	}
}

// formatIPv6 is an independent RFC 5952 formatter (not netip).
func formatIPv6(g [8]uint16) string {
	bestStart, bestLen := -1, 0
	for i := 0; i < 8; {
		if g[i] != 0 {
			i++
			continue
		}
		j := i
		for j < 8 && g[j] == 0 {
			j++
		}
		if j-i > bestLen && j-i >= 2 {
			bestStart, bestLen = i, j-i
		}
		i = j
	}
	var sb strings.Builder
	for i := 0; i < 8; i++ {
		if i == bestStart {
			sb.WriteString("::")
			i += bestLen - 1
			continue
		}
		if i > 0 && !(i == bestStart+bestLen && bestStart >= 0) {
			sb.WriteByte(':')
		}
		sb.WriteString(strconv.FormatUint(uint64(g[i]), 16))
	}
	return sb.String()
}

func genIPv6(rng *rand.Rand) [8]uint16 {
	for {
		var g [8]uint16
		for i := range g {
			switch rng.IntN(4) {
			case 0:
				g[i] = 0
			case 1:
				g[i] = uint16(rng.IntN(16))
			default:
				g[i] = uint16(rng.IntN(65536))
			}
		}
		if rng.IntN(3) == 0 { // a longer zero run
			s := rng.IntN(8)
			for i := s; i < min(8, s+2+rng.IntN(6)); i++ {
				g[i] = 0
			}
		}
		if rng.IntN(10) == 0 {
			g = [8]uint16{0, 0, 0, 0, 0, 0, 0, 1}
		}
		// IPv4-mapped (::ffff:0:0/96) is a documented defect, not a valid form
		if g[0] == 0 && g[1] == 0 && g[2] == 0 && g[3] == 0 && g[4] == 0 && g[5] == 0xffff {
			continue
		}
		return g
	}
}

type c13Shape struct {
	scheme   string
	subs     bool
	host     string // rendered host (with brackets for IPv6), without "*."
	kind     string // domain | ipv4 | ipv6
	port     string // "" | ":n" | ":*"
	trailing bool
}

func (s c13Shape) String() string {
	h := s.host
	if s.subs {
		h = "*." + h
	}
	return s.scheme + "://" + h + s.port
}

func (s c13Shape) wildcardFree() bool { return !s.subs && s.port != ":*" }

var c13Schemes = []string{"httpx", "https+foo", "http-ext.v2", "httpss", "https.", "http2", "ht", "h", "htt", "files", "file2", "filesystem", "fil", "nul", "nulls", "null",
	"ws", "wss", "ftp", "connector", "chrome-extension", "moz-extension", "a+b.c-d", "x-y", "s3", "z39.50"}

var validALabelHosts = []string{"www.xn--xample-9ua.com", "xn--bcher-kva.example", "a.xn--bcher-kva.example.org"}

func genValidShape(rng *rand.Rand) c13Shape {
	var s c13Shape
	switch rng.IntN(12) {
	case 10, 11: // schemes that extend, or are prefixes of, well-known ones
		s.scheme = choose(rng, c13Schemes)
	case 0:
		s.scheme = "http"
	case 1, 2:
		s.scheme = "https"
	case 3:
		s.scheme = genScheme(rng, 64)
	case 4:
		s.scheme = genScheme(rng, 1)
	default:
		s.scheme = genScheme(rng, 1+rng.IntN(64))
	}
	switch k := rng.IntN(12); {
	case k == 0:
		s.kind = "ipv4"
		s.host = fmt.Sprintf("%d.%d.%d.%d", rng.IntN(256), rng.IntN(256), rng.IntN(256), rng.IntN(256))
	case k == 1:
		s.kind = "ipv6"
		s.host = "[" + formatIPv6(genIPv6(rng)) + "]"
	case k == 2:
		s.kind = "domain"
		s.host = choose(rng, validALabelHosts)
	default:
		s.kind = "domain"
		var n int
		switch rng.IntN(8) {
		case 0:
			n = 253
		case 1:
			n = 251
		case 2:
			n = 252
		case 3:
			n = 1 + rng.IntN(5)
		default:
			n = 1 + rng.IntN(80)
		}
		s.host = genDomain(rng, n)
		if rng.IntN(5) == 0 {
			s.trailing = true
			s.host += "."
		}
	}
	if s.kind != "domain" && s.scheme == "https" {
		s.scheme = "http" // https + IP host is a grey zone: not judged
	}
	if s.kind == "domain" && rng.IntN(4) == 0 {
		base := strings.TrimSuffix(s.host, ".")
		switch {
		case !s.trailing && len(base) <= 251:
			s.subs = true
		case s.trailing && len(base) <= 250: // `*.` + 251-byte base + trailing dot is not judged
			s.subs = true
		}
	}
	switch rng.IntN(8) {
	case 0, 1, 2:
	case 3:
		s.port = ":*"
	case 4:
		s.port = ":65535"
	case 5:
		s.port = ":1"
	default:
		s.port = ":" + strconv.Itoa(1+rng.IntN(65535))
	}
	if (s.scheme == "http" && s.port == ":80") || (s.scheme == "https" && s.port == ":443") {
		s.port = ":8080"
	}
	return s
}

func allMaximaShape(rng *rand.Rand) c13Shape {
	return c13Shape{scheme: genScheme(rng, 64), host: genDomain(rng, 253) + ".", kind: "domain", port: ":65535", trailing: true}
}

// defects returns single-defect (by construction invalid) mutations of a valid shape.
func defectsOf(rng *rand.Rand, s c13Shape) []c13Case {
	var out []c13Case
	add := func(defect, p string) {
		out = append(out, c13Case{Pattern: p, Valid: false, Defect: defect, Shape: s.String()})
	}
	full := s.String()
	hostPart := s.host
	if s.subs {
		hostPart = "*." + s.host
	}
	noPort := s.scheme + "://" + hostPart
	// whitespace, path, query, fragment, userinfo
	add("whitespace", " "+full)
	add("whitespace", full+" ")
	add("whitespace", full+"\t")
	add("whitespace", "\n"+full)
	add("path", full+"/")
	add("path", full+"/index.html")
	add("query", full+"?q=1")
	add("fragment", full+"#top")
	add("userinfo", s.scheme+"://user@"+hostPart+s.port)
	add("userinfo", s.scheme+"://user:secret@"+hostPart+s.port)
	// ports
	add("empty-port", noPort+":")
	add("zero-port", noPort+":0")
	add("port-over-range", noPort+":65536")
	add("port-over-range", noPort+":"+strconv.Itoa(65536+rng.IntN(34464)))
	add("port-over-long", noPort+":"+strconv.Itoa(100000+rng.IntN(900000)))
	add("port-leading-zero", noPort+":0"+strconv.Itoa(1+rng.IntN(9999)))
	add("port-junk", noPort+":8o80")
	add("port-wildcard-partial", noPort+":8*")
	add("port-wildcard-partial", noPort+":*8")
	add("port-wildcard-partial", noPort+":**")
	if s.scheme == "http" {
		add("default-port", noPort+":80")
	}
	if s.scheme == "https" {
		add("default-port", noPort+":443")
	}
	add("file-scheme", "file://"+hostPart+s.port)
	// host defects
	switch s.kind {
	case "domain":
		h := s.host
		if i := strings.IndexAny(h, letters); i >= 0 {
			up := h[:i] + strings.ToUpper(h[i:i+1]) + h[i+1:]
			pre := ""
			if s.subs {
				pre = "*."
			}
			add("uppercase-host", s.scheme+"://"+pre+up+s.port)
		}
		pre := ""
		if s.subs {
			pre = "*."
		}
		p := rng.IntN(len(h) + 1)
		add("unicode-host", s.scheme+"://"+pre+h[:p]+"é"+h[p:]+s.port)
		add("unicode-host", s.scheme+"://"+pre+"résumé."+h+s.port)
		// wildcard misplaced
		add("wildcard-misplaced", s.scheme+"://*"+h+s.port)
		add("wildcard-misplaced", s.scheme+"://a*."+h+s.port)
		add("wildcard-misplaced", s.scheme+"://*a."+h+s.port)
		add("wildcard-misplaced", s.scheme+"://a.*."+h+s.port)
		add("wildcard-misplaced", s.scheme+"://"+pre+strings.TrimSuffix(h, ".")+".*"+s.port)
		add("wildcard-misplaced", s.scheme+"://*.*."+h+s.port)
		// label longer than 63 bytes
		add("label-too-long", s.scheme+"://"+pre+genLabel(rng, 64+rng.IntN(10), false)+"."+strings.TrimSuffix(h, ".")[max(0, len(strings.TrimSuffix(h, "."))-150):]+s.port)
		// domain longer than 253 bytes (not counting a trailing dot)
		base := strings.TrimSuffix(h, ".")
		long := base
		for len(long) <= 253 {
			long = genLabel(rng, 1+rng.IntN(40), false) + "." + long
		}
		dot := ""
		if s.trailing {
			dot = "."
		}
		add("domain-too-long", s.scheme+"://"+long+dot+s.port)
	case "ipv4":
		add("wildcard-before-ip", s.scheme+"://*."+s.host+s.port)
		add("ip-bracketed-v4", s.scheme+"://["+s.host+"]"+s.port) // brackets are for IPv6 only (finding F4)
		oct := strings.Split(s.host, ".")
		add("ip-noncanonical", s.scheme+"://"+oct[0]+"."+oct[1]+"."+oct[2]+".0"+oct[3]+s.port)
		add("ip-noncanonical", s.scheme+"://0x"+strconv.FormatInt(int64(rng.IntN(256)), 16)+"."+oct[1]+"."+oct[2]+"."+oct[3]+s.port)
		add("ip-noncanonical", s.scheme+"://"+oct[0]+"."+oct[1]+"."+oct[3]+s.port)
		add("ip-noncanonical", s.scheme+"://"+oct[0]+"."+oct[1]+"."+oct[2]+".256"+s.port)
	case "ipv6":
		inner := s.host[1 : len(s.host)-1]
		add("wildcard-before-ip", s.scheme+"://*."+s.host+s.port)
		add("ip-zone", s.scheme+"://["+inner+"%eth0]"+s.port)
		add("ip-zone", s.scheme+"://["+inner+"%251]"+s.port)
		add("ip-4in6", s.scheme+"://[::ffff:"+fmt.Sprintf("%d.%d.%d.%d", rng.IntN(256), rng.IntN(256), rng.IntN(256), rng.IntN(256))+"]"+s.port)
		add("ip-4in6", s.scheme+"://[::ffff:"+strconv.FormatInt(int64(1+rng.IntN(65535)), 16)+":"+strconv.FormatInt(int64(1+rng.IntN(65535)), 16)+"]"+s.port)
		if up := strings.ToUpper(inner); up != inner {
			add("ip-noncanonical", s.scheme+"://["+up+"]"+s.port)
		}
		if strings.Contains(inner, "::") { // expand the compression
			// count groups
			parts := strings.Split(inner, "::")
			n := 0
			for _, p := range parts {
				if p != "" {
					n += len(strings.Split(p, ":"))
				}
			}
			zeros := strings.TrimSuffix(strings.Repeat("0:", 8-n), ":")
			exp := inner
			switch {
			case parts[0] == "" && parts[1] == "":
				exp = zeros
			case parts[0] == "":
				exp = zeros + ":" + parts[1]
			case parts[1] == "":
				exp = parts[0] + ":" + zeros
			default:
				exp = parts[0] + ":" + zeros + ":" + parts[1]
			}
			add("ip-noncanonical", s.scheme+"://["+exp+"]"+s.port)
		}
		add("ip-noncanonical", s.scheme+"://[0"+inner+"]"+s.port) // leading zero in the first group (or before ::)
		add("ip-bracket", s.scheme+"://"+inner+s.port)
		add("ip-bracket", s.scheme+"://["+inner+s.port)
	}
	return out
}

func c13Run(r *Run, l *Local, c c13Case) {
	l.curA = []string{c.Pattern}
	l.evals++
	cfg := cors.Config{Origins: []string{c.Pattern}}
	cfg.DangerouslyTolerateSubdomainsOfPublicSuffixes = true
	cfg.DangerouslyTolerateInsecureOrigins = true
	mw, err := cors.NewMiddleware(cfg)
	_, perr := origins.ParsePattern(c.Pattern)
	if c.Valid {
		l.n1++
		if perr != nil {
			r.Violate("valid-rejected", "grammar/ParsePattern", fmt.Sprintf("pattern of the documented form rejected by origins.ParsePattern: %q: %v", truncate(c.Pattern, 400), perr), c)
		}
		if err != nil {
			r.Violate("valid-rejected", "grammar/NewMiddleware", fmt.Sprintf("pattern of the documented form rejected: %q: %v", truncate(c.Pattern, 400), truncate(err.Error(), 300)), c)
			return
		}
		if !strings.Contains(c.Pattern, "*") {
			o := serve(mw, actualReq("GET", c.Pattern))
			if v, ok := o.first(hACAO); !ok || v != c.Pattern {
				r.Violate("self-match-refused", "grammar/self-match", fmt.Sprintf("accepted wildcard-free pattern %q (%d bytes) presented verbatim as Origin is not allowed: %s", truncate(c.Pattern, 400), len(c.Pattern), truncate(o.String(), 300)), c)
			}
			l.counters["self_match_probes"]++
		}
		return
	}
	l.n2++
	if err == nil {
		r.Violate("defect-accepted", "grammar/NewMiddleware", fmt.Sprintf("pattern with documented defect %q accepted: %q", c.Defect, truncate(c.Pattern, 400)), c)
		return
	}
	if mw != nil {
		r.Violate("defect-accepted", "grammar/NewMiddleware", "non-nil middleware next to an error", c)
	}
	if perr == nil {
		r.Violate("defect-accepted", "grammar/ParsePattern", fmt.Sprintf("pattern with documented defect %q accepted by origins.ParsePattern: %q", c.Defect, truncate(c.Pattern, 400)), c)
	}
	n := 0
	for e := range cfgerrors.All(err) {
		n++
		ue, ok := e.(*cfgerrors.UnacceptableOriginPatternError)
		if !ok || ue == nil {
			r.Violate("wrong-error-type", "grammar/error", fmt.Sprintf("defective pattern %q rejected with %T (%v) instead of *UnacceptableOriginPatternError", truncate(c.Pattern, 300), e, e), c)
			continue
		}
		if ue.Value != c.Pattern {
			r.Violate("wrong-error-value", "grammar/error", fmt.Sprintf("defective pattern %q rejected with an error naming %q", truncate(c.Pattern, 300), truncate(ue.Value, 300)), c)
		}
		if ue.Reason != "invalid" && ue.Reason != "prohibited" {
			r.Violate("wrong-error-reason", "grammar/error", fmt.Sprintf("defective pattern %q rejected with Reason %q", truncate(c.Pattern, 300), ue.Reason), c)
		}
	}
	if n < 1 { // several errors naming the same string are fine (one per defect); none is not
		r.Violate("wrong-error-count", "grammar/error", fmt.Sprintf("defective pattern %q produced %d errors", truncate(c.Pattern, 300), n), c)
	}
}

// c13RunList: patterns of the documented form stay accepted, and allowed verbatim, when configured TOGETHER - in
// particular several patterns on one host with different schemes and ports in any order
// (lesson of seeded change C13-h: per-host scheme/port tables that get out of step).
func c13RunList(r *Run, l *Local, list []string) {
	l.curA = list
	l.evals++
	cfg := cors.Config{Origins: append([]string(nil), list...)}
	cfg.DangerouslyTolerateSubdomainsOfPublicSuffixes = true
	cfg.DangerouslyTolerateInsecureOrigins = true
	mw, err := cors.NewMiddleware(cfg)
	if err != nil {
		r.Violate("valid-rejected", "grammar/NewMiddleware", fmt.Sprintf("list of %d patterns of the documented form rejected: %v", len(list), truncate(err.Error(), 300)), c13Case{Pattern: list[0], List: list, Valid: true})
		return
	}
	for _, p := range list {
		if strings.Contains(p, "*") {
			continue
		}
		o := serve(mw, actualReq("GET", p))
		l.counters["self_match_probes_in_lists"]++
		if v, ok := o.first(hACAO); !ok || v != p {
			r.Violate("self-match-refused", "grammar/self-match", fmt.Sprintf("accepted wildcard-free pattern %q presented verbatim as Origin is not allowed when configured together with %d other patterns: %s", truncate(p, 300), len(list)-1, truncate(o.String(), 300)), c13Case{Pattern: p, List: list, Valid: true})
			return
		}
	}
}

// c13RunCovered: the defective string d (derived from the valid shape s) stays rejected, with an error naming it, when it is
// listed AFTER valid patterns that cover the origin it resembles: the same host with an arbitrary port, arbitrary subdomains
// of the parent domain, both (lesson of seeded change C13-n: elements skipped as redundant before they are validated).
func c13RunCovered(r *Run, l *Local, s c13Shape, d c13Case) {
	var coverers []string
	coverers = append(coverers, c13Shape{scheme: s.scheme, host: s.host, kind: s.kind, port: ":*", trailing: s.trailing}.String())
	if s.kind == "domain" {
		if i := strings.IndexByte(s.host, '.'); i > 0 && i+1 < len(s.host) && s.host[i+1:] != "." {
			parent := s.host[i+1:]
			coverers = append(coverers, s.scheme+"://*."+parent+":*", s.scheme+"://*."+parent+s.port)
		}
	}
	// ... and after `*`, which covers everything (lesson of seeded change C13-r: elements after `*` no longer parsed)
	prefixes := [][]string{{"*"}, {s.String(), "*"}}
	for _, cov := range coverers {
		prefixes = append(prefixes, []string{cov})
	}
	for _, pre := range prefixes {
		cov := pre[len(pre)-1]
		if cov == d.Pattern {
			continue
		}
		ok := true
		for _, p := range pre {
			if _, err := origins.ParsePattern(p); err != nil && p != "*" {
				ok = false // the prefix itself must be acceptable (e.g. not for over-long parents)
			}
		}
		if !ok {
			continue
		}
		list := append(append([]string{}, pre...), d.Pattern)
		l.curA = list
		l.evals++
		l.counters["defect_listed_after_a_covering_pattern"]++
		cfg := cors.Config{Origins: list}
		cfg.DangerouslyTolerateSubdomainsOfPublicSuffixes = true
		cfg.DangerouslyTolerateInsecureOrigins = true
		_, err := cors.NewMiddleware(cfg)
		cs := c13Case{Pattern: d.Pattern, List: list, Defect: d.Defect}
		if err == nil {
			r.Violate("defect-accepted", "grammar/NewMiddleware", fmt.Sprintf("pattern with documented defect %q accepted when listed after %q: %q", d.Defect, cov, truncate(d.Pattern, 300)), cs)
			return
		}
		named := false
		for e := range cfgerrors.All(err) {
			if ue, ok := e.(*cfgerrors.UnacceptableOriginPatternError); ok && ue != nil && ue.Value == d.Pattern {
				named = true
			}
		}
		if !named {
			r.Violate("wrong-error-value", "grammar/error", fmt.Sprintf("defective pattern %q listed after %q: no UnacceptableOriginPatternError names it (%v)", truncate(d.Pattern, 300), cov, truncate(err.Error(), 300)), cs)
			return
		}
	}
}

// c13Variants: the shape with other schemes and other ports on the same host
func c13Variants(rng *rand.Rand, s c13Shape, n int) []c13Shape {
	var out []c13Shape
	for i := 0; i < n; i++ {
		v := s
		if rng.IntN(3) > 0 {
			switch rng.IntN(4) {
			case 0:
				v.scheme = choose(rng, c13Schemes)
			case 1:
				v.scheme = "http"
			case 2:
				v.scheme = genScheme(rng, 1+rng.IntN(6))
			default:
				v.scheme = "https"
			}
			if v.kind != "domain" && v.scheme == "https" {
				v.scheme = "http"
			}
		}
		switch rng.IntN(6) {
		case 0:
			v.port = ""
		case 1:
			v.port = ":*"
		case 2:
			v.port = ":65535"
		case 3:
			v.port = ":1"
		case 4:
			v.port = ":" + strconv.Itoa(1+rng.IntN(65535))
		}
		if (v.scheme == "http" && v.port == ":80") || (v.scheme == "https" && v.port == ":443") {
			v.port = ":8080"
		}
		if rng.IntN(6) == 0 && v.kind == "domain" && !v.trailing && len(v.host) <= 251 {
			v.subs = !v.subs
		}
		out = append(out, v)
	}
	return out
}

func TestVerif_C13(t *testing.T) {
	r := newRun(t, "C13")
	r.Rule("valid side: grammar-based generator (scheme [a-z][a-z0-9+.-]{0,63} != file; LDH domains with every total length 1..253 and label lengths 1..63, valid A-labels, optional trailing dot; canonical dotted-quad; RFC 5952 IPv6 from an independent formatter; `*.` before domains <= 251 bytes; port none / canonical 1-65535 except the scheme default / `*`; all maxima at once), each accepted pattern without wildcard also presented verbatim as Origin; every fourth generated pattern also configured together with 1-6 variants of it on the same host (other schemes, other ports, `*.`) and 0-2 unrelated patterns in PRNG order, every wildcard-free member presented verbatim. " +
		"invalid side: every documented defect applied to every generated valid shape, alone and (a third of them) listed after valid patterns that cover the origin it resembles (whitespace, path, query, fragment, userinfo, empty/zero/over-range/over-long/leading-zero/default/partial-wildcard port, file, null, upper-case or Unicode host, misplaced wildcard, wildcard before IP, non-canonical/zoned/IPv4-mapped/unbracketed IP, label > 63, domain > 253). " +
		"non-trivial = every generated string (each is either a member of the documented language or carries a named defect); distinct by hash of the string")
	r.Assume("grey zones are not generated: https with an IP host, `_`, hyphens in label positions 3-4, upper-case scheme, last label starting with a digit, `*.` + 251-byte base + trailing dot")

	var rc c13Case
	if r.LoadReplay(nil, &rc) {
		l := r.newLocal(0)
		if len(rc.List) > 0 && rc.Defect != "" {
			cfg := cors.Config{Origins: rc.List}
			cfg.DangerouslyTolerateSubdomainsOfPublicSuffixes, cfg.DangerouslyTolerateInsecureOrigins = true, true
			if _, err := cors.NewMiddleware(cfg); err == nil {
				r.Violate("defect-accepted", "grammar/NewMiddleware", fmt.Sprintf("pattern with documented defect %q accepted in list %q", rc.Defect, rc.List), rc)
			} else {
				named := false
				for e := range cfgerrors.All(err) {
					if ue, ok := e.(*cfgerrors.UnacceptableOriginPatternError); ok && ue != nil && ue.Value == rc.Pattern {
						named = true
					}
				}
				if !named {
					r.Violate("wrong-error-value", "grammar/error", fmt.Sprintf("defective pattern %q in list %q: no error names it", rc.Pattern, rc.List), rc)
				}
			}
		} else if len(rc.List) > 0 {
			c13RunList(r, l, rc.List)
		} else {
			c13Run(r, l, rc)
		}
		r.merge(l)
		r.Finish(0)
		return
	}

	// boundary lengths, exhaustive
	r.Parallel(1, func(l *Local) {
		rng := l.Rng
		for rep := 0; rep < 3; rep++ {
			for n := 1; n <= 253; n++ {
				for _, dot := range []string{"", "."} {
					h := genDomain(rng, n) + dot
					c := c13Case{Pattern: "https://" + h, Valid: true, Shape: "domain-length-" + strconv.Itoa(n)}
					c13Run(r, l, c)
					l.NontrivialKey(c.Pattern)
					if n <= 251-len(dot) {
						c = c13Case{Pattern: "https://*." + h + ":*", Valid: true, Shape: "subs-base-length-" + strconv.Itoa(n)}
						c13Run(r, l, c)
						l.NontrivialKey(c.Pattern)
					}
				}
			}
			for n := 254; n <= 300; n++ {
				long := genDomain(rng, 253)
				for len(long) < n {
					long = "a" + long
				}
				// rebuild as labels <= 63 so that only the total length is wrong
				long = genDomain(rng, n)
				c13Run(r, l, c13Case{Pattern: "https://" + long, Valid: false, Defect: "domain-too-long", Shape: strconv.Itoa(n)})
				c13Run(r, l, c13Case{Pattern: "https://" + long + ".", Valid: false, Defect: "domain-too-long", Shape: strconv.Itoa(n)})
			}
			for n := 252; n <= 300; n++ {
				c13Run(r, l, c13Case{Pattern: "https://*." + genDomain(rng, n), Valid: false, Defect: "wildcard-base-too-long", Shape: strconv.Itoa(n)})
			}
			for n := 1; n <= 80; n++ {
				lab := genLabel(rng, n, true)
				c13Run(r, l, c13Case{Pattern: "https://" + lab + ".example.com", Valid: n <= 63, Defect: "label-too-long", Shape: "label-length-" + strconv.Itoa(n)})
				sch := genScheme(rng, n)
				c13Run(r, l, c13Case{Pattern: sch + "://example.com", Valid: n <= 64, Defect: "scheme-too-long", Shape: "scheme-length-" + strconv.Itoa(n)})
			}
			for p := 0; p <= 100100; p++ {
				if rep > 0 && p > 200 && p < 65400 && p%641 != 0 {
					continue // the first repetition sweeps every port 0..100100
				}
				valid := p >= 1 && p <= 65535 && p != 443
				c13Run(r, l, c13Case{Pattern: "https://example.com:" + strconv.Itoa(p), Valid: valid, Defect: "port-range-or-default", Shape: "port"})
				valid = p >= 1 && p <= 65535 && p != 80
				c13Run(r, l, c13Case{Pattern: "http://example.com:" + strconv.Itoa(p), Valid: valid, Defect: "port-range-or-default", Shape: "port"})
			}
			for i := 0; i < 8; i++ {
				c := c13Case{Pattern: allMaximaShape(rng).String(), Valid: true, Shape: "all-maxima"}
				c13Run(r, l, c)
				l.NontrivialKey(c.Pattern)
			}
			for _, sch := range c13Schemes {
				for _, rest := range []string{"://example.com", "://example.com:8080", "://localhost:*", "://*.example.com"} {
					c := c13Case{Pattern: sch + rest, Valid: true, Shape: "scheme-pool"}
					c13Run(r, l, c)
					l.NontrivialKey(c.Pattern)
				}
			}
			if rep == 0 {
				isLD := func(b int) bool { return b >= 'a' && b <= 'z' || b >= '0' && b <= '9' }
				for v := 0; v < 256; v++ {
					b := string([]byte{byte(v)})
					// middle of a label (position 6 of "exaXmple"): letters, digits and hyphen are valid; `_` and `.` are not judged
					if v != '_' && v != '.' {
						valid := isLD(v) || v == '-'
						for _, p := range []string{"https://exam" + b + "ple.com", "https://*.exam" + b + "ple.com:8080", "connector://sub.exam" + b + "ple.com.:*", "http://localhost" + b + "x:*"} {
							c13Run(r, l, c13Case{Pattern: p, Valid: valid, Defect: "host-byte", Shape: "byte-sweep-host"})
							l.NontrivialKey(p)
						}
					}
					// middle of a scheme: letters, digits, `+`, `-`, `.` are valid; `_` is not judged
					if v != '_' {
						valid := isLD(v) || v == '+' || v == '-' || v == '.'
						p := "web" + b + "app://example.com"
						if valid && ("web"+b+"app" == "file") {
							valid = false
						}
						c13Run(r, l, c13Case{Pattern: p, Valid: valid, Defect: "scheme-byte", Shape: "byte-sweep-scheme"})
						l.NontrivialKey(p)
					}
					// first byte of a scheme: lower-case letters only (upper case is not judged)
					if !(v >= 'A' && v <= 'Z') && v != '_' {
						p := b + "ttp://example.com:8080"
						c13Run(r, l, c13Case{Pattern: p, Valid: v >= 'a' && v <= 'z', Defect: "scheme-first-byte", Shape: "byte-sweep-scheme"})
					}
					// a digit position of a port
					{
						p := "https://example.com:8" + b + "80"
						c13Run(r, l, c13Case{Pattern: p, Valid: v >= '0' && v <= '9', Defect: "port-byte", Shape: "byte-sweep-port"})
						p = "https://example.com:" + b + "080"
						c13Run(r, l, c13Case{Pattern: p, Valid: v >= '1' && v <= '9', Defect: "port-first-byte", Shape: "byte-sweep-port"})
					}
					// first and last byte of a label: letters and digits only
					if v != '_' && v != '.' {
						for _, p := range []string{"https://" + b + "xample.com", "https://exampl" + b + ".com", "https://a." + b + "b.example.com"} {
							c13Run(r, l, c13Case{Pattern: p, Valid: isLD(v), Defect: "label-edge-byte", Shape: "byte-sweep-host"})
						}
					}
				}
			}
			c13Run(r, l, c13Case{Pattern: "null", Valid: false, Defect: "null"})
			c13Run(r, l, c13Case{Pattern: "file:///somepath", Valid: false, Defect: "file-scheme"})
		}
		l.Sample("all-maxima", c13Case{Pattern: allMaximaShape(rng).String(), Valid: true, Shape: "all-maxima"})
	})
	r.Exhaustive("every byte value at a mid-label, label-edge, mid-scheme, first-scheme and port-digit position; every domain length 1..300 (with/without trailing dot), every wildcard-base length 1..300, every label length 1..80, every scheme length 1..80, every port 0..100100, all maxima at once")

	// every ordered triple of distinct patterns from one small family on one domain: 2 schemes x {the domain, a subdomain,
	// arbitrary subdomains} x {no port, a port, any port} - what is listed first, second and third must not matter to the
	// patterns' own meaning (lesson of seeded change C13-q: a subtree discarded when `*.D:*` arrives after `*.D`)
	{
		var fam []string
		for _, sch := range []string{"http", "https"} {
			for _, host := range []string{"example.com", "status.example.com", "*.example.com"} {
				for _, port := range []string{"", ":8080", ":*"} {
					fam = append(fam, sch+"://"+host+port)
				}
			}
		}
		r.Parallel(len(fam), func(l *Local) {
			a := fam[l.Batch]
			for _, b := range fam {
				for _, c := range fam {
					if a == b || a == c || b == c {
						continue
					}
					c13RunList(r, l, []string{a, b, c})
					l.NontrivialKey(a + " " + b + " " + c)
					l.counters["family_triples"]++
				}
			}
		})
	}

	nb := pick(r, 64, 1024)
	per := pick(r, 1200, 4000)
	r.Parallel(nb, func(l *Local) {
		rng := l.Rng
		for i := 0; i < per; i++ {
			s := genValidShape(rng)
			c := c13Case{Pattern: s.String(), Valid: true, Shape: s.kind}
			c13Run(r, l, c)
			l.NontrivialKey(c.Pattern)
			if l.Batch == 0 && i < 2 {
				l.Sample("valid", c)
			}
			if i%4 == 0 { // the pattern together with 1..6 variants on the same host and 0..2 unrelated patterns, in PRNG order
				shapes := append([]c13Shape{s}, c13Variants(rng, s, 1+rng.IntN(6))...)
				for k := rng.IntN(3); k > 0; k-- {
					shapes = append(shapes, genValidShape(rng))
				}
				var list []string
				for _, v := range shuffled(rng, shapes) {
					list = append(list, v.String())
				}
				c13RunList(r, l, list)
				l.NontrivialKey(strings.Join(list, " "))
				l.counters["lists"]++
			}
			for j, d := range defectsOf(rng, s) {
				c13Run(r, l, d)
				if j%3 == i%3 { // ... and listed after valid patterns that would cover it if it were valid
					c13RunCovered(r, l, s, d)
				}
				l.NontrivialKey(d.Pattern)
				l.counters["defect_"+d.Defect]++
				if l.Batch == 0 && i == 0 && j%9 == 0 {
					l.Sample("defect", d)
				}
			}
		}
	})
	r.mu.Lock()
	r.counters["valid_by_construction"], r.counters["defective_by_construction"] = r.counters["n1"], r.counters["n2"]
	delete(r.counters, "n1")
	delete(r.counters, "n2")
	r.mu.Unlock()
	r.Finish(5000)
}
