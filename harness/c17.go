//go:build verif

package verifharness_test

import (
	"errors"
	"fmt"
	"math"
	"math/rand/v2"
	"net/http"
	"strings"
	"testing"

	"github.com/jub0bs/cors"
	"github.com/jub0bs/cors/cfgerrors"
)

// C17 - no input can crash configuration or request handling.
// Monitor: recover() around every call into the library (a panic is the violation);
// process-fatal errors are attributed through the BEGIN markers by the driver.

type c17Case struct {
	Config map[string]any `json:"config,omitempty"`
	Debug  bool           `json:"debug,omitempty"`
	Req    *Req           `json:"request,omitempty"`
	Note   string         `json:"note,omitempty"`
}

// c17Config exercises NewMiddleware, Reconfigure (zero value and configured), Config and cfgerrors.All on cfg.
func c17Config(r *Run, l *Local, cfg cors.Config) *cors.Middleware {
	desc := func() any { return c17Case{Config: cfgJSON(&cfg)} }
	var mw *cors.Middleware
	var err error
	l.evals++
	r.Guard(desc, func() { mw, err = cors.NewMiddleware(cfg) })
	if err != nil {
		l.n2++
		r.Guard(desc, func() {
			n := 0
			for e := range cfgerrors.All(err) {
				if e != nil {
					_ = e.Error()
				}
				n++
			}
			for range cfgerrors.All(err) {
				break
			}
			_ = err.Error()
		})
	} else {
		l.n1++
	}
	r.Guard(desc, func() {
		var z cors.Middleware
		c := cfg
		_ = z.Reconfigure(&c)
		_ = z.Config()
		z.SetDebug(true)
		_ = z.Reconfigure(z.Config())
		_ = z.Reconfigure(nil)
		_ = z.Config()
	})
	if mw != nil {
		r.Guard(desc, func() {
			c := mw.Config()
			if c != nil {
				_ = mw.Reconfigure(c)
			}
		})
	}
	return mw
}

func c17Serve(r *Run, l *Local, mw *cors.Middleware, cfg *cors.Config, debug bool, q Req, nilMap bool) {
	l.evals++
	r.Guard(func() any { t := trimReq(q); return c17Case{Config: cfgJSON(cfg), Debug: debug, Req: &t} }, func() {
		w := newRW()
		req := q.httpReq()
		if nilMap {
			req.Header = nil
		}
		w.inner = &countingHandler{body: "ok"}
		wrappedOnce(mw).ServeHTTP(w, req)
		// the same exchange behind an outer layer that left odd (but legal for an http.Header) entries in the response
		// header map: keys with zero values, nil slices, empty strings (lesson of seeded change C17-p)
		w = newRW()
		for k, v := range oddPresets(reqHash(q)) {
			w.h[k] = v
		}
		w.inner = &countingHandler{body: "ok"}
		wrappedOnce(mw).ServeHTTP(w, q.httpReq())
	})
}

// reqHash: a hash of what identifies a request (method and the CORS request headers).
func reqHash(q Req) uint64 {
	var sb strings.Builder
	sb.WriteString(q.Method)
	for _, k := range []string{hOrigin, hACRM, hACRH, hACRPN} {
		for _, v := range q.Header[k] {
			if len(v) < 512 {
				sb.WriteString(v)
			}
			sb.WriteByte(0)
		}
	}
	return hashString(sb.String() + "#preset")
}

// oddPresets: response-header entries that a ResponseWriter's map may legitimately hold before the middleware runs.
func oddPresets(x uint64) http.Header {
	corsKeys := []string{"Vary", "Access-Control-Allow-Origin", "Access-Control-Allow-Credentials", "Access-Control-Allow-Methods", "Access-Control-Allow-Headers", "Access-Control-Max-Age", "Access-Control-Expose-Headers", "Access-Control-Allow-Private-Network"}
	h := http.Header{}
	switch x % 7 {
	case 0:
		h["Vary"] = []string{}
	case 1:
		h["Vary"] = nil
	case 2:
		for _, k := range corsKeys {
			h[k] = []string{}
		}
	case 3:
		h["Vary"] = []string{""}
	case 4:
		for _, k := range corsKeys {
			h[k] = nil
		}
	case 5:
		h["Vary"] = make([]string, 0, 8)
		h["Access-Control-Allow-Origin"] = []string{"", ""}
	default:
		h["Vary"] = []string{"", "", ""}
		h["vary"] = []string{}
	}
	return h
}

// byteSweep: every byte value at every syntactic position of a seed string.
func byteSweep(seed string, f func(s string)) {
	b := []byte(seed)
	for pos := 0; pos <= len(b); pos++ {
		for v := 0; v < 256; v++ {
			if pos < len(b) {
				old := b[pos]
				b[pos] = byte(v)
				f(string(b))
				b[pos] = old
			}
			if v%8 == 0 { // insertion
				f(seed[:pos] + string([]byte{byte(v)}) + seed[pos:])
			}
		}
	}
}

var c17Lengths = []int{0, 1, 2, 3, 4, 5, 63, 64, 65, 250, 251, 252, 253, 254, 255, 256, 320, 326, 327, 328, 1000, 4096, 65535, 65536, 1 << 20}

func hostileConfigStrings(rng *rand.Rand) []string {
	out := []string{}
	for _, n := range c17Lengths {
		if n > 70000 && rng.IntN(8) != 0 {
			continue
		}
		out = append(out, strings.Repeat("a", n), "https://"+strings.Repeat("a", n), "https://"+strings.Repeat("a.", n/2)+"com", "https://*."+strings.Repeat("b", n),
			strings.Repeat("s", n)+"://example.com", "https://example.com:"+strings.Repeat("9", n), "http://["+strings.Repeat(":", n)+"]", "http://["+strings.Repeat("1:", n/2)+"1]",
			strings.Repeat("*", n), strings.Repeat("\x00", n), strings.Repeat("é", n/2), "https://"+strings.Repeat("xn--", n/4)+".com")
	}
	return out
}

func TestVerif_C17(t *testing.T) {
	r := newRun(t, "C17")
	r.Rule("recover() around every call of NewMiddleware, Reconfigure (zero value, configured, nil, Config() result), Config, SetDebug, cfgerrors.All (full and broken-off traversal) and ServeHTTP. Inputs: labelled and junk configurations (C04 generators), arbitrary strings and integers in every Config field, " +
		"length extremes 0..1 MiB, every byte value at every position of seed patterns / methods / header names, hostile requests under the C02 configuration product and under junk-derived accepted configurations in both debug modes (every byte value at every position of Origin, ACRM, ACRH, ACRPN seeds; zero-valued and multi-valued keys; nil header map; any method token), join trees of depth 10^4 for All. " +
		"evaluation = one guarded call sequence; non-trivial = every distinct input (by hash). The race phase replays a slice under -race (checkptr); the fuzz phase runs Go native coverage-guided fuzzing of two targets.")
	r.Assume("a panic that recover() can see is the violation; a fatal error kills the child process, which the driver reports as a violation together with the last BEGIN marker")

	var rc c17Case
	if r.LoadReplay(nil, &rc) {
		l := r.newLocal(0)
		cfg := cfgFromJSON(rc.Config)
		mw := c17Config(r, l, cfg)
		if mw != nil && rc.Req != nil {
			mw.SetDebug(rc.Debug)
			c17Serve(r, l, mw, &cfg, rc.Debug, expandReq(*rc.Req), false)
		}
		if strings.Contains(rc.Note, "call of ResponseWriter.") {
			c17Reentrancy(r) // the deterministic grid of exchanges reconfigured from inside
		}
		r.merge(l)
		r.Finish(0)
		return
	}
	scale := 1
	if r.IsRace() {
		scale = pick(r, 8, 16) // the race build is ~10x slower: replay a slice
	}

	// ---- configurations: byte sweeps over seeds in every list field
	seeds := []struct{ field, seed string }{
		{"origin", "https://example.com:8080"}, {"origin", "https://*.example.com:*"}, {"origin", "http://[::1]:9090"}, {"origin", "http://127.0.0.1"},
		{"origin", "https://xn--bcher-kva.example."}, {"origin", "*"}, {"origin", "null"},
		{"method", "PUT"}, {"method", "*"}, {"reqhdr", "Authorization"}, {"reqhdr", "*"}, {"reqhdr", "X-Foo"}, {"resphdr", "X-Bar"}, {"resphdr", "*"}, {"resphdr", "Set-Cookie"},
	}
	r.Parallel(len(seeds), func(l *Local) {
		sd := seeds[l.Batch]
		if scale > 1 && l.Batch%4 != 0 {
			return
		}
		byteSweep(sd.seed, func(s string) {
			cfg := cors.Config{Origins: []string{"https://example.com"}}
			switch sd.field {
			case "origin":
				cfg.Origins = []string{s}
				if len(s)%2 == 0 {
					cfg.Origins = []string{"https://example.org", s, "https://*.example.org"}
				}
				cfg.DangerouslyTolerateSubdomainsOfPublicSuffixes = len(s)%3 == 0
			case "method":
				cfg.Methods = []string{s}
			case "reqhdr":
				cfg.RequestHeaders = []string{"X-A", s}
				cfg.Credentialed = len(s)%2 == 0
			case "resphdr":
				cfg.ResponseHeaders = []string{s, "X-B"}
			}
			mw := c17Config(r, l, cfg)
			l.NontrivialKey(sd.field, s)
			if mw != nil && sd.field == "origin" {
				// the accepted pattern, and its neighbours, as Origin
				for _, o := range []string{s, s + "x", "x" + s, strings.Replace(s, "*", "a", -1), strings.Replace(s, "*", "8081", -1)} {
					c17Serve(r, l, mw, &cfg, false, actualReq("GET", o), false)
					c17Serve(r, l, mw, &cfg, false, preflightReq(o, "PUT", []string{"x-a"}, true), false)
				}
			}
		})
	})
	r.Exhaustive("every byte value substituted at every position (and every 8th value inserted) of 15 seed strings across Origins / Methods / RequestHeaders / ResponseHeaders")

	// ---- configurations: junk, extremes, integers
	nb := pick(r, 64, 256) / scale
	per := pick(r, 1500, 6000)
	var hSeeds, oSeeds []string
	for _, a := range append(append([]OAtom{}, secureOriginAtoms...), invalidOriginAtoms...) {
		if len(a.Raw) < 100 {
			oSeeds = append(oSeeds, a.Raw)
		}
	}
	for _, a := range append(append([]HAtom{}, validReqHdrAtoms...), forbiddenReqHdrAtoms...) {
		hSeeds = append(hSeeds, a.Raw)
	}
	ints := []int{0, -1, 1, -2, 5, 86400, 86401, 199, 200, 204, 299, 300, 255, 256, 455, 456, 65736, math.MaxInt32, math.MinInt32, math.MaxInt64, math.MinInt64, math.MaxInt64 - 199, math.MinInt64 + 200}
	var accepted struct {
		cfgs []cors.Config
	}
	r.Parallel(nb, func(l *Local) {
		rng := l.Rng
		extremes := hostileConfigStrings(rng)
		for i := 0; i < per; i++ {
			var cfg cors.Config
			if rng.IntN(3) == 0 {
				c, _ := randInvalidCfg(rng, 1+rng.IntN(6))
				cfg = c.Config()
			} else {
				cfg = randValidCfg(rng).Config()
			}
			js := func(seeds []string) string {
				if rng.IntN(12) == 0 {
					return choose(rng, extremes)
				}
				return junkString(rng, seeds)
			}
			for k := rng.IntN(4); k > 0; k-- {
				switch rng.IntN(6) {
				case 0:
					cfg.Origins = append(cfg.Origins, js(oSeeds))
				case 1:
					cfg.Methods = append(cfg.Methods, js(hSeeds))
				case 2:
					cfg.RequestHeaders = append(cfg.RequestHeaders, js(hSeeds))
				case 3:
					cfg.ResponseHeaders = append(cfg.ResponseHeaders, js(hSeeds))
				case 4:
					cfg.MaxAgeInSeconds = choose(rng, ints)
				case 5:
					cfg.PreflightSuccessStatus = choose(rng, ints)
				}
			}
			if rng.IntN(20) == 0 {
				cfg.Origins = nil
			}
			if rng.IntN(30) == 0 { // very long lists
				for k := 0; k < 2000; k++ {
					cfg.Origins = append(cfg.Origins, junkString(rng, oSeeds))
					cfg.RequestHeaders = append(cfg.RequestHeaders, "x-"+junkString(rng, hSeeds))
				}
			}
			mw := c17Config(r, l, cfg)
			l.NontrivialKey(cfgString(&cfg))
			if mw != nil && rng.IntN(4) == 0 {
				// hostile requests against whatever was accepted
				sem := &Sem{Hdrs: map[string]bool{"x-listed-1": true}}
				origins := append([]string{}, cfg.Origins...)
				origins = append(origins, "https://example.com", "null", "", bigString)
				for k := 0; k < 6; k++ {
					dbg := k%2 == 0
					mw.SetDebug(dbg)
					q := randHostileReq(rng, sem, origins)
					if rng.IntN(2) == 0 {
						q.Header[hOrigin] = []string{mutateBytes(rng, choose(rng, origins))}
					}
					c17Serve(r, l, mw, &cfg, dbg, q, false)
				}
			}
			if l.Batch == 0 && i < 2 {
				l.Sample("junk-config", c17Case{Config: cfgJSON(&cfg)})
			}
		}
	})
	_ = accepted

	// ---- requests: byte sweeps under the C02 product
	prod, _ := c02Product()
	stride := pick(r, 61, 7) * scale
	r.Parallel(len(prod), func(l *Local) {
		if !r.visit(l.Batch, stride) {
			return
		}
		c := prod[l.Batch]
		e, err := newC03Env(c)
		if err != nil {
			return
		}
		cfg := c.Config()
		rng := l.Rng
		allowed := e.allowed[0]
		for d := 0; d < 2; d++ {
			dbg := d == 1
			sweep := func(seed string, mk func(s string) Req) {
				byteSweep(seed, func(s string) {
					c17Serve(r, l, e.mw[d], &cfg, dbg, mk(s), false)
				})
			}
			sweep(allowed, func(s string) Req { return actualReq("GET", s) })
			sweep(allowed, func(s string) Req { return preflightReq(s, "PUT", []string{"x-listed-1"}, false) })
			sweep("PUT", func(s string) Req { return preflightReq(allowed, s, nil, false) })
			sweep("x-listed-1, x-listed-2", func(s string) Req { return preflightReq(allowed, "GET", []string{s}, false) })
			sweep("x-listed-1", func(s string) Req { return preflightReq(allowed, "GET", []string{"authorization", s, ""}, false) })
			sweep("true", func(s string) Req { return preflightReq(allowed, "GET", nil, false).withHeader(hACRPN, s) })
			sweep("OPTIONS", func(s string) Req { q := preflightReq(allowed, "GET", nil, false); q.Method = s; return q })
			l.NontrivialKey(specKey(c), fmt.Sprint(dbg))
			// shapes
			for _, q := range []Req{
				{Method: "OPTIONS", Header: map[string][]string{}},
				{Method: "OPTIONS", Header: map[string][]string{hOrigin: {}, hACRM: {}, hACRH: {}, hACRPN: {}}},
				{Method: "OPTIONS", Header: map[string][]string{hOrigin: nil, hACRM: nil}},
				{Method: "", Header: map[string][]string{hOrigin: {allowed}}},
				{Method: "OPTIONS", Header: map[string][]string{hOrigin: {allowed}, hACRM: {"GET"}, hACRH: make([]string, 5000)}},
				{Method: "OPTIONS", Header: map[string][]string{hOrigin: {allowed}, hACRM: {"GET"}, hACRH: {bigString, bigString}}},
				{Method: "OPTIONS", Header: map[string][]string{hOrigin: {bigString}, hACRM: {bigString}, hACRH: {bigString}, hACRPN: {bigString}}},
				{Method: "GET", Header: map[string][]string{hOrigin: {bigString, allowed}}},
			} {
				c17Serve(r, l, e.mw[d], &cfg, dbg, q, false)
			}
			c17Serve(r, l, e.mw[d], &cfg, dbg, Req{Method: "OPTIONS"}, true)
			c17Serve(r, l, e.mw[d], &cfg, dbg, Req{Method: "GET"}, true)
			for i := 0; i < 300; i++ {
				q := randHostileReq(rng, e.sem, e.origins).clone()
				if rng.IntN(2) == 0 {
					for k, v := range q.Header {
						for j := range v {
							if len(v[j]) < 4096 {
								q.Header[k][j] = mutateBytes(rng, v[j])
							}
						}
					}
				}
				c17Serve(r, l, e.mw[d], &cfg, dbg, q, false)
			}
		}
	})

	// ---- pattern lists built to collide in the radix tree (C01 universe), with probes of every member
	{
		U := buildUniverse(t, nil, []string{"http", "https", "ht", "httpss"}, []int{portNone, 1, 8080, 65535, portAny})
		r.Parallel(pick(r, 32, 256)/scale+1, func(l *Local) {
			rng := l.Rng
			for i := 0; i < pick(r, 150, 600); i++ {
				n := 1 + rng.IntN(12)
				var strs []string
				var members []*uPat
				for j := 0; j < n; j++ {
					p := choose(rng, U)
					members = append(members, p)
					strs = append(strs, p.str)
				}
				cfg := cors.Config{Origins: strs, ExtraConfig: cors.ExtraConfig{DangerouslyTolerateSubdomainsOfPublicSuffixes: true}}
				mw := c17Config(r, l, cfg)
				l.NontrivialKey(strs...)
				if mw == nil {
					continue
				}
				for _, m := range members {
					for k := 0; k < len(m.probes); k += 1 + len(m.probes)/10 {
						c17Serve(r, l, mw, &cfg, false, actualReq("GET", m.probes[k].str), false)
						c17Serve(r, l, mw, &cfg, false, preflightReq(m.probes[k].str, "PUT", nil, false), false)
					}
				}
			}
		})
	}

	c17Reentrancy(r)
	{
		l := r.newLocal(0)
		c17SuffixChains(r, l)
		r.merge(l)
	}

	// ---- cfgerrors.All on deep and wide join trees
	r.Parallel(pick(r, 4, 16), func(l *Local) {
		for _, depth := range []int{1, 10, 1000, 10000, 100000 / scale} {
			var err error = &cfgerrors.UnacceptableMethodError{Value: "x", Reason: "invalid"}
			for i := 0; i < depth; i++ {
				if i%3 == 0 && depth <= 10000 {
					err = errors.Join(err, nil, &cfgerrors.MaxAgeOutOfBoundsError{Value: i})
				} else {
					err = errors.Join(err)
				}
			}
			l.evals++
			r.Guard(func() any { return c17Case{Note: fmt.Sprintf("join tree of depth %d", depth)} }, func() {
				n := 0
				for range cfgerrors.All(err) {
					n++
				}
				for range cfgerrors.All(err) {
					break
				}
			})
			l.nontrivN++
		}
		wide := make([]error, 100000)
		for i := range wide {
			wide[i] = &cfgerrors.UnacceptableMethodError{Value: "w", Reason: "invalid"}
		}
		r.Guard(func() any { return c17Case{Note: "join of 100000 leaves"} }, func() {
			for range cfgerrors.All(errors.Join(wide...)) {
			}
		})
		// error values of the exported types with arbitrary field contents (Error() must not panic)
		for _, e := range []error{&cfgerrors.IncompatibleOriginPatternError{}, &cfgerrors.IncompatibleOriginPatternError{Value: "x", Reason: "nonsense"},
			&cfgerrors.UnacceptableOriginPatternError{}, &cfgerrors.UnacceptableHeaderNameError{}, &cfgerrors.UnacceptableMethodError{Reason: "\xff"},
			&cfgerrors.MaxAgeOutOfBoundsError{Value: math.MinInt64}, &cfgerrors.PreflightSuccessStatusOutOfBoundsError{Value: math.MaxInt64}} {
			r.Guard(func() any { return c17Case{Note: fmt.Sprintf("%T", e)} }, func() { _ = e.Error() })
		}
	})
	r.mu.Lock()
	r.counters["configs_accepted"], r.counters["configs_rejected"] = r.counters["n1"], r.counters["n2"]
	delete(r.counters, "n1")
	delete(r.counters, "n2")
	r.mu.Unlock()
	r.Finish(pick(r, int64(5000), int64(5000)) / int64(scale))
}

// c17Reentrancy: see the comment inside.
// c17SuffixChains: origin lists whose hosts form a chain of byte-suffixes of one long host (every suffix that is itself a
// valid host), in ascending, descending and PRNG order: the deepest radix trees the grammar permits. Construction, requests
// from the longest and the shortest origin, and the round trip through Config() must not panic
// (lesson of seeded change C17-q: a "cannot happen" depth bound that counts labels where the tree splits at bytes).
func c17SuffixChains(r *Run, l *Local) {
	for _, base := range []string{longHost(253), strings.Repeat("a", 63) + "." + strings.Repeat("a", 63) + "." + strings.Repeat("a", 63) + "." + strings.Repeat("a", 61), strings.TrimSuffix(strings.Repeat("ab.", 84), "."), strings.Repeat("a.", 126) + "a"} {
		var chain []string
		for i := len(base) - 1; i >= 0; i-- {
			suf := base[i:]
			if suf[0] == '.' || suf[0] == '-' || strings.HasPrefix(suf, "xn--") || (len(suf) > 3 && suf[2] == '-' && suf[3] == '-') {
				continue
			}
			if c := suf[strings.LastIndexByte(suf, '.')+1]; c >= '0' && c <= '9' {
				continue // grey zone: last label starting with a digit
			}
			chain = append(chain, "http://"+suf)
		}
		orders := [][]string{chain, reversedStrings(chain), shuffled(l.Rng, chain), append(append([]string{}, chain[len(chain)/2:]...), chain[:len(chain)/2]...)}
		for oi, list := range orders {
			cfg := cors.Config{Origins: list}
			cfg.DangerouslyTolerateInsecureOrigins = true
			cfg.DangerouslyTolerateSubdomainsOfPublicSuffixes = true
			l.counters["suffix_chain_lists"]++
			var mw *cors.Middleware
			r.Guard(func() any {
				return c17Case{Config: cfgJSON(&cfg), Note: fmt.Sprintf("suffix chain of a %d-byte host, order %d", len(base), oi)}
			}, func() {
				l.evals++
				m, err := cors.NewMiddleware(cfg)
				if err != nil {
					return // whether such a list is acceptable is C05's / C13's business
				}
				mw = m
				for _, o := range []string{chain[len(chain)-1], chain[0], chain[len(chain)/2], "http://z" + base[1:]} {
					w := newRW()
					w.inner = &countingHandler{body: "ok"}
					wrappedOnce(m).ServeHTTP(w, actualReq("GET", o).httpReq())
					w = newRW()
					w.inner = &countingHandler{body: "ok"}
					wrappedOnce(m).ServeHTTP(w, preflightReq(o, "PUT", nil, false).httpReq())
				}
				if c := m.Config(); c != nil {
					_ = m.Reconfigure(c)
					_, _ = cors.NewMiddleware(*c)
				}
			})
			_ = mw
		}
	}
}

func reversedStrings(a []string) []string {
	out := make([]string, len(a))
	for i, s := range a {
		out[len(a)-1-i] = s
	}
	return out
}

func c17Reentrancy(r *Run) {
	// ---- the middleware reconfigured FROM INSIDE an exchange: the ResponseWriter's methods (called by the middleware and
	// by the wrapped handler on this very goroutine) call Reconfigure(nil) / Reconfigure(other) / SetDebug on the middleware
	// at their k-th invocation - what a concurrent administrator does, at the points where the middleware hands control
	// away (lesson of seeded change C17-n: state read a second time after the snapshot was taken)
	{
		cfgA := cors.Config{Origins: []string{"https://example.com", "https://*.example.com:*"}, Methods: []string{"PUT"}, RequestHeaders: []string{"X-Listed-1"}, MaxAgeInSeconds: 30, ResponseHeaders: []string{"X-Exposed"}}
		cfgB := cors.Config{Origins: []string{"*"}, Methods: []string{"*"}, RequestHeaders: []string{"*"}, ExtraConfig: cors.ExtraConfig{PreflightSuccessStatus: 299}}
		cfgC := cors.Config{Origins: []string{"https://example.com"}, Credentialed: true, RequestHeaders: []string{"*"}, ExtraConfig: cors.ExtraConfig{PrivateNetworkAccess: true}}
		starts := []*cors.Config{nil, &cfgA, &cfgB, &cfgC}
		reqs := []Req{
			buildReq("GET", nil, nil, nil, nil, nil), buildReq("OPTIONS", nil, nil, nil, nil, nil), actualReq("GET", "https://example.com"),
			actualReq("POST", "https://never-allowed.invalid"), actualReq("OPTIONS", "https://example.com"),
			preflightReq("https://example.com", "PUT", []string{"x-listed-1"}, false), preflightReq("https://example.com", "PUT", []string{"x-unlisted"}, true),
			preflightReq("https://never-allowed.invalid", "GET", nil, false), preflightReq("https://a.example.com:8443", "DELETE", nil, true),
		}
		actions := []string{"reconfigure-nil", "reconfigure-A", "reconfigure-B", "reconfigure-C", "setdebug-on", "setdebug-off", "config", "reconfigure-invalid"}
		r.Parallel(len(starts)*2, func(l *Local) {
			start := starts[l.Batch/2]
			debug := l.Batch%2 == 1
			for _, q := range reqs {
				for _, act := range actions {
					for _, method := range []string{"Header", "WriteHeader", "Write"} {
						for k := 1; k <= 4; k++ {
							l.evals++
							l.nontrivN++
							l.counters["exchanges_reconfigured_from_inside"]++
							note := fmt.Sprintf("start=%v debug=%v: %s at the %d. call of ResponseWriter.%s", start != nil, debug, act, k, method)
							r.Guard(func() any { t := trimReq(q); return c17Case{Config: cfgJSON(start), Debug: debug, Req: &t, Note: note} }, func() {
								mw := new(cors.Middleware)
								if start != nil {
									c := *start
									if err := mw.Reconfigure(&c); err != nil {
										return
									}
								}
								mw.SetDebug(debug)
								h := mw.Wrap(&countingHandler{body: "ok", status: 200})
								w := &hookedWriter{rw: rw{h: http.Header{}}, method: method, at: k}
								w.do = func() {
									switch act {
									case "reconfigure-nil":
										_ = mw.Reconfigure(nil)
									case "reconfigure-A":
										c := cfgA
										_ = mw.Reconfigure(&c)
									case "reconfigure-B":
										c := cfgB
										_ = mw.Reconfigure(&c)
									case "reconfigure-C":
										c := cfgC
										_ = mw.Reconfigure(&c)
									case "setdebug-on":
										mw.SetDebug(true)
									case "setdebug-off":
										mw.SetDebug(false)
									case "config":
										_ = mw.Config()
									case "reconfigure-invalid":
										_ = mw.Reconfigure(&cors.Config{Origins: []string{"https://bad origin"}, MaxAgeInSeconds: -7})
									}
								}
								h.ServeHTTP(w, q.httpReq())
								// and once more afterwards, plainly
								h.ServeHTTP(&rw{h: http.Header{}}, q.httpReq())
							})
						}
					}
				}
			}
		})
	}
}

// hookedWriter runs do() at the at-th invocation of the named ResponseWriter method, before the method's own work.
type hookedWriter struct {
	rw
	method string
	at     int
	n      int
	do     func()
}

func (w *hookedWriter) hit(m string) {
	if m == w.method {
		w.n++
		if w.n == w.at && w.do != nil {
			w.do()
		}
	}
}
func (w *hookedWriter) Header() http.Header         { w.hit("Header"); return w.rw.Header() }
func (w *hookedWriter) WriteHeader(s int)           { w.hit("WriteHeader"); w.rw.WriteHeader(s) }
func (w *hookedWriter) Write(b []byte) (int, error) { w.hit("Write"); return w.rw.Write(b) }

func (q Req) withHeader(k, v string) Req {
	q.Header[k] = []string{v}
	return q
}

// ---------------------------------------------------------------------------
// native fuzz targets (thorough tier; built with -fuzz instrumentation by the driver)

func FuzzVerifConfig(f *testing.F) {
	f.Add("https://example.com", "PUT", "Authorization", "X-Foo", 30, 204, uint8(0))
	f.Add("https://*.example.com:*", "*", "*", "*", -1, 0, uint8(1))
	f.Add("http://[::1]:9090", "patch", "X-A", "Set-Cookie", 86401, 300, uint8(6))
	f.Add("*", "CONNECT", "Cookie", "", 0, 200, uint8(255))
	f.Fuzz(func(t *testing.T, origin, method, reqHdr, respHdr string, maxAge, status int, flags uint8) {
		cfg := cors.Config{Origins: []string{origin}, Credentialed: flags&1 != 0, MaxAgeInSeconds: maxAge}
		if flags&32 != 0 {
			cfg.Origins = append(cfg.Origins, "https://example.org", origin)
		}
		if method != "" {
			cfg.Methods = []string{method}
		}
		if reqHdr != "" {
			cfg.RequestHeaders = []string{reqHdr, "X-Other"}
		}
		if respHdr != "" {
			cfg.ResponseHeaders = []string{respHdr}
		}
		cfg.PreflightSuccessStatus = status
		cfg.PrivateNetworkAccess = flags&2 != 0
		cfg.PrivateNetworkAccessInNoCORSModeOnly = flags&4 != 0
		cfg.DangerouslyTolerateInsecureOrigins = flags&8 != 0
		cfg.DangerouslyTolerateSubdomainsOfPublicSuffixes = flags&16 != 0
		mw, err := cors.NewMiddleware(cfg)
		if err != nil {
			for e := range cfgerrors.All(err) {
				_ = e.Error()
			}
			return
		}
		c := mw.Config()
		if err := mw.Reconfigure(c); err != nil {
			t.Fatalf("Reconfigure(Config()) failed: %v (config %s)", err, cfgString(&cfg))
		}
		mw.SetDebug(flags&64 != 0)
		w := newRW()
		mw.Wrap(&countingHandler{}).ServeHTTP(w, actualReq("GET", origin).httpReq())
		w = newRW()
		mw.Wrap(&countingHandler{}).ServeHTTP(w, preflightReq(origin, method, []string{reqHdr}, true).httpReq())
	})
}

var fuzzMWs []*cors.Middleware

func fuzzMiddlewares() []*cors.Middleware {
	if fuzzMWs == nil {
		for _, cc := range c18Cfgs {
			for d := 0; d < 2; d++ {
				mw, err := cors.NewMiddleware(cc.cfg)
				if err != nil {
					panic(err)
				}
				mw.SetDebug(d == 1)
				fuzzMWs = append(fuzzMWs, mw)
			}
		}
	}
	return fuzzMWs
}

func FuzzVerifRequest(f *testing.F) {
	f.Add(uint8(0), "OPTIONS", "https://a.example.com", "PUT", "x-listed-1,x-listed-2", "", "true", uint8(0))
	f.Add(uint8(3), "GET", "https://example.com:8080", "", "", "", "", uint8(1))
	f.Add(uint8(9), "OPTIONS", "http://[::1]:9090", "GET", "authorization", "x-listed-1", "TRUE", uint8(2))
	f.Add(uint8(5), "OPTIONS", "null", "\x00", " , ,", ",,,,,,,,,,,,,,,,,,", "", uint8(7))
	f.Fuzz(func(t *testing.T, which uint8, method, origin, acrm, acrh1, acrh2, acrpn string, shape uint8) {
		mws := fuzzMiddlewares()
		mw := mws[int(which)%len(mws)]
		h := http.Header{}
		if shape&1 == 0 {
			h[hOrigin] = []string{origin}
		}
		if shape&2 == 0 {
			h[hACRM] = []string{acrm}
		}
		switch shape >> 2 & 3 {
		case 0:
			h[hACRH] = []string{acrh1}
		case 1:
			h[hACRH] = []string{acrh1, acrh2}
		case 2:
			h[hACRH] = []string{}
		}
		if acrpn != "" {
			h[hACRPN] = []string{acrpn}
		}
		if shape&16 != 0 {
			h[hOrigin] = append(h[hOrigin], acrh2)
		}
		req := (&Req{Method: method}).httpReq()
		req.Header = h
		w := newRW()
		mw.Wrap(&countingHandler{body: "ok"}).ServeHTTP(w, req)
	})
}
