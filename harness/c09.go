//go:build verif

package verifharness_test

import (
	"fmt"
	"sort"
	"strconv"
	"strings"
	"testing"

	"github.com/jub0bs/cors"
)

// C09 - debug mode follows the documented state machine over any call history (S6),
// and changes nothing but the diagnostics attached to failing preflights.

const (
	opDebugOn  = 0
	opDebugOff = 1
	opNil      = 2
	opA        = 3
	opB        = 4
	opInvalid  = 5
)

var c09OpNames = []string{"SetDebug(true)", "SetDebug(false)", "Reconfigure(nil)", "Reconfigure(A)", "Reconfigure(B)", "Reconfigure(invalid)"}

var (
	c09A       = cors.Config{Origins: []string{"https://a.example"}, Methods: []string{"PUT"}, RequestHeaders: []string{"X-A"}, MaxAgeInSeconds: 111, ExtraConfig: cors.ExtraConfig{PreflightSuccessStatus: 201}}
	c09B       = cors.Config{Origins: []string{"https://a.example", "https://b.example"}, Methods: []string{"DELETE"}, RequestHeaders: []string{"X-B"}, MaxAgeInSeconds: 222, ExtraConfig: cors.ExtraConfig{PreflightSuccessStatus: 202}}
	c09Invalid = cors.Config{Origins: []string{"https://c.example", "https://bad origin"}, Methods: []string{"PATCH"}, MaxAgeInSeconds: 333, ExtraConfig: cors.ExtraConfig{PreflightSuccessStatus: 203}}
)

// model state: cfg 0 = passthrough, 1 = A, 2 = B
type c09State struct {
	cfg   int
	debug bool
}

func (s c09State) String() string {
	return []string{"nil", "A", "B"}[s.cfg] + "/" + map[bool]string{false: "off", true: "on"}[s.debug]
}

// S6
func c09Step(s c09State, op int) c09State {
	switch op {
	case opDebugOn:
		return c09State{s.cfg, s.cfg != 0}
	case opDebugOff:
		return c09State{s.cfg, false}
	case opNil:
		return c09State{0, false}
	case opA:
		return c09State{1, s.debug}
	case opB:
		return c09State{2, s.debug}
	}
	return s
}

func c09Apply(m *cors.Middleware, op int) (err error) {
	switch op {
	case opDebugOn:
		m.SetDebug(true)
	case opDebugOff:
		m.SetDebug(false)
	case opNil:
		return m.Reconfigure(nil)
	case opA:
		a := c09A
		return m.Reconfigure(&a)
	case opB:
		b := c09B
		return m.Reconfigure(&b)
	case opInvalid:
		i := c09Invalid
		return m.Reconfigure(&i)
	}
	return nil
}

// Observation: after every step the middleware must answer a probe suite exactly as a FRESH middleware
// in the model's state does (golden answers recorded beforehand), and Config() must be nil exactly for
// passthrough. The probes include debug-sensitive preflights (failing at the method, header and PNA
// steps, where debug mode shows the configured header list) so that stale per-state data shows up.
var c09Probes = []Req{
	preflightReq("https://a.example", "GET", nil, false),
	preflightReq("https://a.example", "VERIFUNLISTED", nil, false),
	preflightReq("https://a.example", "GET", []string{"x-a"}, false),
	preflightReq("https://a.example", "GET", []string{"x-b"}, false),
	preflightReq("https://a.example", "GET", []string{"x-unlisted"}, false),
	preflightReq("https://b.example", "GET", nil, false),
	preflightReq("https://a.example", "PUT", nil, false),
	preflightReq("https://a.example", "DELETE", []string{"x-a"}, false),
	preflightReq("https://a.example", "GET", nil, true),
	actualReq("GET", "https://a.example"),
	actualReq("GET", "https://b.example"),
	actualReq("OPTIONS", "https://b.example"),
	buildReq("GET", nil, nil, nil, nil, nil),
	buildReq("OPTIONS", nil, nil, nil, nil, nil),
}

var c09States = []c09State{{0, false}, {1, false}, {1, true}, {2, false}, {2, true}}

type c09GoldenT map[c09State][]Obs

var c09Golden c09GoldenT

func buildC09Golden() (c09GoldenT, error) {
	g := c09GoldenT{}
	for _, st := range c09States {
		var m *cors.Middleware
		switch st.cfg {
		case 0:
			m = new(cors.Middleware)
		case 1:
			a := c09A
			mm, err := cors.NewMiddleware(a)
			if err != nil {
				return nil, err
			}
			m = mm
		case 2:
			b := c09B
			mm, err := cors.NewMiddleware(b)
			if err != nil {
				return nil, err
			}
			m = mm
		}
		m.SetDebug(st.debug)
		for _, q := range c09Probes {
			g[st] = append(g[st], serve(m, q))
		}
	}
	// pairwise distinguishable?
	for i, a := range c09States {
		for _, b := range c09States[i+1:] {
			if firstDiff(g[a], g[b]) < 0 {
				return nil, fmt.Errorf("states %s and %s are indistinguishable by the probe suite", a, b)
			}
		}
	}
	return g, nil
}

// c09Observe returns the state whose golden answers the middleware reproduces, or a description of the mismatch
// with respect to the expected state.
func c09Observe(m *cors.Middleware, want c09State) (c09State, string) {
	got := make([]Obs, len(c09Probes))
	for i, q := range c09Probes {
		got[i] = serve(m, q)
	}
	cfgNil := m.Config() == nil
	if firstDiff(c09Golden[want], got) < 0 && cfgNil == (want.cfg == 0) {
		return want, ""
	}
	for _, st := range c09States {
		if firstDiff(c09Golden[st], got) < 0 && cfgNil == (st.cfg == 0) {
			return st, ""
		}
	}
	d := firstDiff(c09Golden[want], got)
	if d < 0 {
		return want, fmt.Sprintf("Config()==nil is %v in state %s", cfgNil, want)
	}
	return want, fmt.Sprintf("the answers match no state of the machine; with respect to %s the answer to %s is %s instead of %s", want, reqString(c09Probes[d]), got[d], c09Golden[want][d])
}

type c09Case struct {
	Start string `json:"start"` // new(A) | zero
	Ops   []int  `json:"ops"`
}

func (c c09Case) String() string {
	names := make([]string, len(c.Ops))
	for i, o := range c.Ops {
		names[i] = c09OpNames[o]
	}
	return c.Start + "; " + strings.Join(names, "; ")
}

type c09Stats struct {
	states map[string]bool
	trans  map[string]bool
}

func c09RunHistory(r *Run, l *Local, cs c09Case, st *c09Stats) {
	l.cur = func() any { return cs }
	var m *cors.Middleware
	model := c09State{0, false}
	if cs.Start == "zero" {
		m = new(cors.Middleware)
	} else {
		var err error
		a := c09A
		m, err = cors.NewMiddleware(a)
		if err != nil {
			r.Violate("valid-rejected", "S6", fmt.Sprintf("configuration A rejected: %v", err), cs)
			return
		}
		model = c09State{1, false}
	}
	check := func(step int) bool {
		l.evals++
		got, problem := c09Observe(m, model)
		if problem != "" {
			r.Violate("state-matches-no-fresh-middleware", "S6", fmt.Sprintf("history [%s], after step %d: %s", cs, step, problem), cs)
			return false
		}
		if got != model {
			key := "debug-mode-diverges"
			if got.cfg != model.cfg {
				key = "configuration-diverges"
			}
			r.Violate(key, "S6", fmt.Sprintf("history [%s], after step %d: observed state %s, documented state machine says %s", cs, step, got, model), cs)
			return false
		}
		return true
	}
	if !check(0) {
		return
	}
	if st != nil {
		st.states[model.String()] = true
	}
	for i, op := range cs.Ops {
		err := c09Apply(m, op)
		if (op == opInvalid) != (err != nil) {
			r.Violate("reconfigure-result", "S6", fmt.Sprintf("history [%s], step %d %s returned error %v", cs, i+1, c09OpNames[op], err), cs)
			return
		}
		next := c09Step(model, op)
		if st != nil {
			st.trans[model.String()+" --"+c09OpNames[op]+"--> "+next.String()] = true
			st.states[next.String()] = true
		}
		model = next
		if !check(i + 1) {
			return
		}
	}
}

// ---------------------------------------------------------------------------
// debug-invariance monitor

type c09bCase struct {
	Spec *CfgSpec `json:"spec"`
	Req  Req      `json:"request"`
}

var debugDiagnosticHeaders = map[string]bool{hACAO: true, hACAC: true, hACAPN: true, hACAM: true, hACAH: true, hACMA: true}

// browserShaped reports whether the preflight could have been sent by a Fetch-compliant browser,
// and returns its parts.
func browserShaped(q Req) (origin, method string, names []string, pna, ok bool) {
	if !isPreflightReq(q) || len(q.Header[hOrigin]) != 1 || len(q.Header[hACRM]) != 1 || len(q.Header[hACRH]) > 1 || len(q.Header[hACRPN]) > 1 {
		return
	}
	// a key that is present with zero values does not exist on the wire: not something a browser sends
	for _, k := range []string{hACRH, hACRPN} {
		if v, present := q.Header[k]; present && len(v) == 0 {
			return
		}
	}
	origin, method = q.Header[hOrigin][0], q.Header[hACRM][0]
	if !isToken(method) || fetchNormalizeMethod(method) != method {
		return
	}
	if v := q.Header[hACRH]; len(v) == 1 {
		if v[0] == "" {
			return
		}
		names = strings.Split(v[0], ",")
		for i, n := range names {
			if !isToken(n) || asciiLower(n) != n || (i > 0 && names[i-1] >= n) {
				return
			}
		}
	}
	if v := q.Header[hACRPN]; len(v) == 1 {
		if v[0] != "true" {
			return
		}
		pna = true
	}
	return origin, method, names, pna, true
}

// preflightGrants is the preflight half of S3 applied to one response.
func preflightGrants(o Obs, origin, method string, names []string, cred, pna bool) bool {
	if !corsCheck(o, origin, cred) || !o.ok2xx() {
		return false
	}
	methods, _, fail := extractList(o, hACAM)
	if fail {
		return false
	}
	headerNames, _, fail := extractList(o, hACAH)
	if fail {
		return false
	}
	safelisted := method == "GET" || method == "HEAD" || method == "POST"
	if !containsExact(methods, method) && !safelisted && (cred || !containsExact(methods, "*")) {
		return false
	}
	for _, n := range names {
		if n == "authorization" && !containsFold(headerNames, n) {
			return false
		}
		if !containsFold(headerNames, n) && (cred || !containsExact(headerNames, "*")) {
			return false
		}
	}
	if pna {
		if v, ok := getCombined(o, hACAPN); !ok || v != "true" {
			return false
		}
	}
	return true
}

func c09bRun(r *Run, l *Local, spec *CfgSpec, sem *Sem, mws [2]*cors.Middleware, q Req) {
	l.cur = func() any { return c09bCase{spec, trimReq(q)} }
	off, on := serve(mws[0], q), serve(mws[1], q)
	l.evals++
	fail := func(key, msg string) {
		cfg := spec.Config()
		r.Violate(key, "debug-invariance", fmt.Sprintf("%s | request %s | debug off: %s | debug on: %s | %s", msg, reqString(q), off, on, cfgString(&cfg)), c09bCase{spec, trimReq(q)})
	}
	if !isPreflightReq(q) {
		l.counters["non_preflight"]++
		if !off.Equal(on) {
			fail("non-preflight-differs", "debug mode changes the answer to a non-preflight request")
		}
		return
	}
	if off.Body != on.Body || off.Calls != on.Calls {
		fail("preflight-body-or-handler", "debug mode changes body/handler invocation of a preflight")
	}
	for k, v := range off.Headers {
		if !debugDiagnosticHeaders[k] && !equalStrings(v, on.Headers[k]) {
			fail("non-diagnostic-header-differs", fmt.Sprintf("debug mode changes header %s", k))
		}
	}
	for k := range on.Headers {
		if _, ok := off.Headers[k]; !ok && !debugDiagnosticHeaders[k] {
			fail("non-diagnostic-header-differs", fmt.Sprintf("debug mode adds header %s", k))
		}
	}
	success := off.ok2xx() && len(off.get(hACAO)) > 0
	if success {
		l.n1++
		// identical, except that ACAH may carry the full configured list instead of the echo
		if off.Status != on.Status {
			fail("successful-preflight-differs", "debug mode changes the status of a preflight that succeeds anyway")
		}
		for k := range debugDiagnosticHeaders {
			a, b := off.get(k), on.get(k)
			if equalStrings(a, b) {
				continue
			}
			if k == hACAH && !sem.StarHdrs && len(sem.Hdrs) > 0 {
				// full configured list?
				got := map[string]bool{}
				for _, line := range b {
					for _, el := range strings.Split(line, ",") {
						if el = asciiLower(strings.Trim(el, " \t")); el != "" {
							got[el] = true
						}
					}
				}
				same := len(got) == len(sem.Hdrs)
				for n := range sem.Hdrs {
					same = same && got[n]
				}
				if same {
					l.counters["success_with_full_list_in_debug"]++
					continue
				}
			}
			fail("successful-preflight-differs", fmt.Sprintf("debug mode changes %s of a preflight that succeeds anyway: %q vs %q", k, a, b))
		}
		return
	}
	l.n2++
	// failing with debug off: debug on may use an ok status and attach a subset of the diagnostic headers...
	if on.Status != off.Status && !on.ok2xx() {
		fail("failing-preflight-status", "debug mode changes the status of a failing preflight to something that is not an ok status")
	}
	// ... but must not turn the failure into a grant (judged for browser-shaped preflights)
	if origin, method, names, pna, ok := browserShaped(q); ok {
		l.counters["failing_browser_shaped"]++
		// debug mode is VISIBLE in every configuration kind (lesson of seeded change C09-h: a fast path that never sees the
		// debug flag): a browser-shaped preflight from an allowed origin that fails (necessarily at the PNA, method or
		// header step) is answered, in debug mode, with an ok status and Access-Control-Allow-Origin, and with neither
		// when debug mode is off. mws[1] / mws[0] reached their debug mode along the histories of newMiddlewareViaDbg.
		if sem.originAllowedRaw(origin) && hostWithinDNSLimits(origin) {
			l.counters["failing_from_allowed_origin"]++
			if !(on.ok2xx() && len(on.get(hACAO)) > 0) {
				fail("debug-mode-not-visible", "debug mode is on (SetDebug(true) on a configured middleware, possibly retained across Reconfigure), but a preflight failing after the origin step is answered as if it were off")
			}
		}
		_, _, _ = method, names, pna
		for _, cred := range []bool{false, true} {
			if preflightGrants(on, origin, method, names, cred, pna) && !preflightGrants(off, origin, method, names, cred, pna) {
				fail("debug-grants-failing-preflight", fmt.Sprintf("with debug on a browser (credentials include=%v) passes a preflight that fails with debug off", cred))
			}
		}
	}
}

func TestVerif_C09(t *testing.T) {
	r := newRun(t, "C09")
	r.Rule("(1) every history over {SetDebug(true), SetDebug(false), Reconfigure(nil), Reconfigure(A), Reconfigure(B), Reconfigure(invalid)} up to length N from NewMiddleware(A) and from the zero value, after every step the answers to a 14-request probe suite (incl. preflights failing at the method, header and PNA steps, which show debug mode and the configured header list) and Config()==nil compared with the golden answers of a fresh middleware in the state the documented state machine prescribes; PRNG histories of length 30. " +
		"(2) debug-invariance: C02 configuration product x hostile and browser-shaped requests answered with debug off and on: non-preflights identical; succeeding preflights identical up to ACAH carrying the full configured list; failing preflights may only gain an ok status and a subset of ACAO/ACAC/ACAPN/ACAM/ACAH/ACMA and must still fail a browser's preflight check; a browser-shaped preflight from an allowed origin that fails must, in debug mode, show the ok status and ACAO (debug mode visible in every configuration kind; the two middlewares reach their debug mode along 8 different histories, incl. debug switched on before the configuration in force was installed). " +
		"evaluation = one observed step (1) or one request pair (2); non-trivial = distinct (history prefix) resp. preflight pair, distinct by construction / hash")
	r.Assume("A and B have discrete method lists, distinct max-age and success status, so that (configuration, debug) is observable from outside")

	var gerr error
	c09Golden, gerr = buildC09Golden()
	if gerr != nil {
		t.Fatalf("C09 golden: %v", gerr)
	}
	mon := replayMonitor()
	if mon == "S6" {
		var rc c09Case
		r.LoadReplay(nil, &rc)
		l := r.newLocal(0)
		c09RunHistory(r, l, rc, nil)
		r.merge(l)
		r.Finish(0)
		return
	}
	if mon == "debug-invariance" {
		var rc c09bCase
		r.LoadReplay(nil, &rc)
		l := r.newLocal(0)
		var mws [2]*cors.Middleware
		for d := 0; d < 2; d++ {
			mw, err := cors.NewMiddleware(rc.Spec.Config())
			if err != nil {
				t.Fatalf("replay: %v", err)
			}
			mw.SetDebug(d == 1)
			mws[d] = mw
		}
		c09bRun(r, l, rc.Spec, rc.Spec.Sem(), mws, expandReq(rc.Req))
		r.merge(l)
		r.Finish(0)
		return
	}

	// ---- (1) exhaustive histories
	maxLen := pick(r, 5, 7)
	type job struct {
		start  string
		prefix []int
		length int
	}
	var jobs []job
	for _, start := range []string{"new(A)", "zero"} {
		for n := 0; n <= maxLen; n++ {
			if n < 2 {
				jobs = append(jobs, job{start, nil, n})
				continue
			}
			for a := 0; a < 6; a++ {
				for b := 0; b < 6; b++ {
					jobs = append(jobs, job{start, []int{a, b}, n})
				}
			}
		}
	}
	var statsMu = &r.mu
	allStates, allTrans := map[string]bool{}, map[string]bool{}
	r.Parallel(len(jobs), func(l *Local) {
		j := jobs[l.Batch]
		st := &c09Stats{map[string]bool{}, map[string]bool{}}
		ops := make([]int, j.length)
		copy(ops, j.prefix)
		free := j.length - len(j.prefix)
		if j.length < 2 {
			free = j.length
		}
		idx := make([]int, free)
		for {
			for k := 0; k < free; k++ {
				ops[j.length-free+k] = idx[k]
			}
			c09RunHistory(r, l, c09Case{j.start, append([]int(nil), ops...)}, st)
			l.nontrivN++
			k := free - 1
			for ; k >= 0; k-- {
				idx[k]++
				if idx[k] < 6 {
					break
				}
				idx[k] = 0
			}
			if k < 0 {
				break
			}
		}
		statsMu.Lock()
		for s := range st.states {
			allStates[s] = true
		}
		for s := range st.trans {
			allTrans[s] = true
		}
		statsMu.Unlock()
		if l.Batch == len(jobs)-1 {
			l.Sample("history", c09Case{j.start, ops}.String())
		}
	})
	r.Exhaustive(fmt.Sprintf("all operation histories of length 0..%d over 6 operations from NewMiddleware(A) and from the zero value, observed after every step", maxLen))
	// PRNG long histories
	r.Parallel(pick(r, 16, 64), func(l *Local) {
		st := &c09Stats{map[string]bool{}, map[string]bool{}}
		for i := 0; i < pick(r, 60, 160); i++ {
			ops := make([]int, 30)
			for k := range ops {
				ops[k] = l.Rng.IntN(6)
			}
			c09RunHistory(r, l, c09Case{[]string{"new(A)", "zero"}[i%2], ops}, st)
			l.nontrivN++
		}
	})
	var ss, ts []string
	for s := range allStates {
		ss = append(ss, s)
	}
	for s := range allTrans {
		ts = append(ts, s)
	}
	sort.Strings(ss)
	sort.Strings(ts)
	r.Set("states", len(ss))
	r.Set("transitions", len(ts))
	r.Set("states_visited", ss)
	r.Set("transitions_visited", ts)
	if r.Phase != "coverage" && r.nViol.Load() == 0 && (len(ss) != 5 || len(ts) != 30) {
		r.Inconclusive(fmt.Sprintf("state machine not fully explored: %d/5 states, %d/30 transitions", len(ss), len(ts)))
	}

	// ---- (2) debug invariance
	prod, _ := c02Product()
	stride := pick(r, 9, 1)
	nRand := pick(r, 200, 1500)
	r.Parallel(len(prod), func(l *Local) {
		if !r.visit(l.Batch, stride) {
			return
		}
		c := prod[l.Batch]
		e, err := newC03Env(c)
		if err != nil {
			return
		}
		rng := l.Rng
		key := specKey(c)
		run := func(q Req) {
			c09bRun(r, l, c, e.sem, e.mw, q)
			if isPreflightReq(q) {
				l.NontrivialKey(key, reqString(q))
			}
		}
		for _, q := range suiteFor(e.sem) {
			run(q)
		}
		for _, ov := range e.allowed {
			for _, m := range []string{"GET", "PUT", "PATCH", "DELETE", "CHICKEN", "UNLISTED"} {
				for _, h := range [][]string{nil, {"authorization"}, {"x-listed-1"}, {"x-listed-1,x-listed-2"}, {"authorization,x-listed-1"}, {"x-unlisted"}, {"content-type,x-listed-1,x-listed-2"}} {
					for _, pn := range [][]string{nil, {"true"}} {
						run(buildReq("OPTIONS", []string{ov}, []string{m}, h, pn, nil))
					}
				}
			}
		}
		for i := 0; i < nRand; i++ {
			q := randHostileReq(rng, e.sem, e.origins)
			if rng.IntN(2) == 0 {
				q.Header[hOrigin] = []string{choose(rng, e.allowed)}
			}
			run(q)
			if l.Batch%5000 == 13 && i < 2 {
				l.Sample("debug-pair", c09bCase{c, trimReq(q)})
			}
		}
	})
	r.mu.Lock()
	r.counters["preflights_succeeding_with_debug_off"], r.counters["preflights_failing_with_debug_off"] = r.counters["n1"], r.counters["n2"]
	delete(r.counters, "n1")
	delete(r.counters, "n2")
	r.mu.Unlock()
	_ = strconv.Itoa
	r.Finish(5000)
}

// hostWithinDNSLimits: the value is an origin a browser can send: the host is an IPv6 literal of hex digits and colons,
// a canonical dotted quad, or a lower-case letter-digit-hyphen domain of at most 253 bytes with labels of 1..63 bytes
// (matchRaw judges the shape of an Origin value, not these limits; beyond them a value is not an origin at all).
func hostWithinDNSLimits(raw string) bool {
	i := strings.Index(raw, "://")
	if i < 0 {
		return false
	}
	host := raw[i+3:]
	if strings.HasPrefix(host, "[") { // an IPv6 literal: hex digits and colons only (a bracketed domain is not an origin any browser sends)
		end := strings.IndexByte(host, ']')
		if end < 3 {
			return false
		}
		for k := 1; k < end; k++ {
			c := host[k]
			if !(c >= '0' && c <= '9' || c >= 'a' && c <= 'f' || c == ':') {
				return false
			}
		}
		return true
	}
	if j := strings.IndexByte(host, ':'); j >= 0 {
		host = host[:j]
	}
	if len(host) == 0 || len(host) > 253 {
		return false
	}
	for k := 0; k < len(host); k++ {
		c := host[k]
		if !(c >= 'a' && c <= 'z' || c >= '0' && c <= '9' || c == '-' || c == '.') {
			return false
		}
	}
	if !wellFormedNumericHost(host) {
		return false
	}
	for _, lab := range strings.Split(host, ".") {
		if len(lab) == 0 || len(lab) > 63 {
			return false
		}
	}
	return true
}
