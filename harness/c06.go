//go:build verif

package verifharness_test

import (
	"fmt"
	"math/rand/v2"
	"strconv"
	"testing"

	"github.com/jub0bs/cors"
)

// C06 - Config() round-trips. Metamorphic monitor: four-way response equality + fixpoint of Config().

type c06Case struct {
	Spec *CfgSpec `json:"spec"`
}

// enrichOrigins adds the shapes the quantifier of C06 names to a valid configuration.
func enrichOrigins(rng *rand.Rand, c *CfgSpec) {
	restricted := c.Cred || c.PNA != pnaOff
	extra := []OAtom{
		oPat(PatSpec{Scheme: "http", Host: "127.0.0.1", Port: 9090}, false, false),
		oPat(PatSpec{Scheme: "http", Host: "127.0.0.10", Port: 9090}, false, false),
		oPat(PatSpec{Scheme: "http", Host: "127.0.0.1"}, false, false),
		oPat(PatSpec{Scheme: "http", Host: "::1", IP6: true, Port: 9090}, false, false),
		oPat(PatSpec{Scheme: "http", Host: "::1", IP6: true}, false, false),
		oPat(PatSpec{Scheme: "http", Host: "::1", IP6: true, Port: portAny}, false, false),
		oPat(PatSpec{Scheme: "https", Host: "example.com."}, false, false),
		oPat(PatSpec{Scheme: "https", Subs: true, Host: "example.com."}, false, false),
		oPat(PatSpec{Scheme: "https", Subs: true, Host: "example.com"}, false, false),
		oPat(PatSpec{Scheme: "https", Host: "a.example.com"}, false, false),              // subsumed by the previous one
		oPat(PatSpec{Scheme: "https", Host: "example.com", Port: portAny}, false, false), // subsumes explicit ports
		oPat(PatSpec{Scheme: "https", Host: "example.com", Port: 8443}, false, false),
		oPat(PatSpec{Scheme: "https", Subs: true, Host: "example.com", Port: portAny}, false, false),
		oPat(PatSpec{Scheme: "https", Subs: true, Host: "example.com", Port: 8443}, false, false),
		oPat(PatSpec{Scheme: "https", Host: "xample.com"}, false, false),
		oPat(PatSpec{Scheme: "https", Host: "ample.com"}, false, false),
	}
	if !restricted || c.TolInsecure {
		extra = append(extra,
			oPat(PatSpec{Scheme: "http", Host: "2001:db8::1", IP6: true, Port: 8080}, true, false),
			oPat(PatSpec{Scheme: "http", Host: "2001:db8::1", IP6: true}, true, false),
			oPat(PatSpec{Scheme: "http", Host: "db8::1", IP6: true}, true, false),
			oPat(PatSpec{Scheme: "http", Host: "192.168.0.1", Port: portAny}, true, false),
			oPat(PatSpec{Scheme: "http", Host: "example.com."}, true, false))
	}
	for k := rng.IntN(6); k > 0; k-- {
		insertAt(rng, &c.Origins, choose(rng, extra))
	}
	// duplicates
	for k := rng.IntN(3); k > 0 && len(c.Origins) > 0; k-- {
		insertAt(rng, &c.Origins, c.Origins[rng.IntN(len(c.Origins))])
	}
}

func randRichValidCfg(rng *rand.Rand) *CfgSpec {
	c := randValidCfg(rng)
	enrichOrigins(rng, c)
	if rng.IntN(4) == 0 {
		c.Status = choose(rng, []int{204, 200, 299})
	}
	if rng.IntN(4) == 0 {
		c.MaxAge = choose(rng, []int{-1, 0})
	}
	// occasionally long lists (binary searches and sorted insertions beyond a handful of elements)
	if rng.IntN(8) == 0 {
		n := 9 + rng.IntN(24)
		for i := 0; i < n; i++ {
			name := "x-many-" + string(rune('a'+rng.IntN(26))) + string(rune('a'+rng.IntN(26)))
			if rng.IntN(3) == 0 {
				name = asciiUpper(name[:3]) + name[3:]
			}
			insertAt(rng, &c.ReqHdrs, hv(name))
		}
	}
	if rng.IntN(8) == 0 {
		n := 9 + rng.IntN(16)
		for i := 0; i < n; i++ {
			m := "M" + string(rune('A'+rng.IntN(26))) + string(rune('a'+rng.IntN(26)))
			insertAt(rng, &c.Methods, MAtom{m, mValid, m})
		}
	}
	if rng.IntN(10) == 0 {
		n := 9 + rng.IntN(16)
		for i := 0; i < n; i++ {
			insertAt(rng, &c.RespHdrs, hv("X-Exp-"+string(rune('a'+rng.IntN(26)))+string(rune('a'+rng.IntN(26)))))
		}
	}
	return c
}

// randLongListsCfg: a rich valid configuration in which every discrete list is long (9..40 elements).
func randLongListsCfg(rng *rand.Rand) *CfgSpec {
	c := randRichValidCfg(rng)
	if n := len(c.ReqHdrs); n < 9 {
		for i := 0; i < 9+rng.IntN(24); i++ {
			name := "x-many-" + string(rune('a'+rng.IntN(26))) + string(rune('a'+rng.IntN(26)))
			if rng.IntN(3) == 0 {
				name = asciiUpper(name[:3]) + name[3:]
			}
			insertAt(rng, &c.ReqHdrs, hv(name))
		}
	}
	if n := len(c.Methods); n < 9 {
		for i := 0; i < 9+rng.IntN(16); i++ {
			m := "M" + string(rune('A'+rng.IntN(26))) + string(rune('a'+rng.IntN(26)))
			insertAt(rng, &c.Methods, MAtom{m, mValid, m})
		}
	}
	if n := len(c.RespHdrs); n < 9 {
		for i := 0; i < 9+rng.IntN(16); i++ {
			insertAt(rng, &c.RespHdrs, hv("X-Exp-"+string(rune('a'+rng.IntN(26)))+string(rune('a'+rng.IntN(26)))))
		}
	}
	return c
}

func c06Run(r *Run, l *Local, c *CfgSpec) {
	cfg := c.Config()
	l.cur = func() any { return c06Case{c} }
	l.evals++
	fail := func(key, msg string) {
		r.Violate(key, "round-trip", msg+" | "+cfgString(&cfg), c06Case{c})
	}
	m1, err := cors.NewMiddleware(cfg)
	if err != nil {
		fail("valid-rejected", fmt.Sprintf("valid configuration rejected: %v", err))
		return
	}
	suite := suiteFor(c.Sem())
	base := runSuite(m1, suite, false)
	n1 := m1.Config()
	if n1 == nil {
		fail("config-nil", "Config() returned nil for a configured middleware")
		return
	}
	if !configEqual(n1, &cfg) {
		l.NontrivialKey(cfgString(&cfg))
		l.counters["configs_normalised_by_Config()"]++
	}
	// a middleware built from Config()
	m2, err := cors.NewMiddleware(*n1)
	if err != nil {
		fail("config-not-accepted", fmt.Sprintf("NewMiddleware(*m.Config()) fails: %v | Config() = %s", err, cfgString(n1)))
	} else if d := firstDiff(base, runSuite(m2, suite, false)); d >= 0 {
		fail("constructors-disagree", fmt.Sprintf("middleware built from Config() %s answers %s differently: %s vs %s", cfgString(n1), reqString(suite[d%len(suite)]), runSuite(m2, suite, false)[d], base[d]))
	}
	// a zero-value middleware reconfigured with &c
	var m3 cors.Middleware
	if err := m3.Reconfigure(&cfg); err != nil {
		fail("reconfigure-rejects-valid", fmt.Sprintf("zero-value Reconfigure(&c) fails: %v", err))
	} else {
		got := runSuite(&m3, suite, false)
		if d := firstDiff(base, got); d >= 0 {
			fail("constructors-disagree", fmt.Sprintf("zero-value middleware reconfigured with &c answers %s differently: %s vs %s", reqString(suite[d%len(suite)]), got[d], base[d]))
		}
	}
	// m.Reconfigure(m.Config()) is a no-op that always succeeds
	for _, dbg := range []bool{false, true} {
		m1.SetDebug(dbg)
		if err := m1.Reconfigure(m1.Config()); err != nil {
			fail("roundtrip-error", fmt.Sprintf("m.Reconfigure(m.Config()) fails: %v | Config() = %s", err, cfgString(n1)))
			return
		}
		after := runSuiteAsIs(m1, suite)
		want := base[:len(suite)]
		if dbg {
			want = base[len(suite):]
		}
		if d := firstDiff(want, after); d >= 0 {
			fail("roundtrip-changes-response", fmt.Sprintf("after m.Reconfigure(m.Config()) (debug=%v) the answer to %s changed: %s vs %s", dbg, reqString(suite[d]), after[d], want[d]))
		}
	}
	m1.SetDebug(false)
	// fixpoint: after one round trip Config() no longer changes
	n2 := m1.Config()
	if err := m1.Reconfigure(n2); err != nil {
		fail("roundtrip-error", fmt.Sprintf("second m.Reconfigure(m.Config()) fails: %v", err))
		return
	}
	n3 := m1.Config()
	if !configEqual(n2, n3) {
		fail("config-not-fixpoint", fmt.Sprintf("Config() keeps changing: %s then %s", cfgString(n2), cfgString(n3)))
	}
	// the value handed out is a copy: two calls give equal, independent values
	if n4 := m1.Config(); !configEqual(n3, n4) {
		fail("config-unstable", "two consecutive Config() calls differ")
	}
}

// c06Bursts: Config() is called, then k successful reconfigurations follow (the last one to another configuration), then
// Config() again: it must describe the configuration in force (lesson of seeded change C06-o: a cached rendering tagged
// with a counter that wraps).
func c06Bursts(r *Run) {
	if r.Replaying() || r.Phase == "coverage" {
		return
	}
	ks := []int{1, 2, 255, 256, 257, 511, 512, 65535, 65536}
	r.Parallel(len(ks), func(l *Local) {
		k := ks[l.Batch]
		a := cors.Config{Origins: []string{"https://a.example.com"}, Methods: []string{"PUT"}, MaxAgeInSeconds: 30}
		b := cors.Config{Origins: []string{"https://b.example.com", "https://*.b.example.com"}, Methods: []string{"DELETE"}, RequestHeaders: []string{"X-B"}, MaxAgeInSeconds: 60}
		for _, withNil := range []bool{false, true} {
			m, err := cors.NewMiddleware(a)
			if err != nil {
				return
			}
			_ = m.Config()
			serve(m, preflightReq("https://a.example.com", "PUT", nil, false))
			for i := 0; i < k-1; i++ {
				c := a
				if withNil && i%2 == 1 {
					_ = m.Reconfigure(nil)
				} else {
					_ = m.Reconfigure(&c)
				}
			}
			c := b
			if err := m.Reconfigure(&c); err != nil {
				return
			}
			l.evals++
			l.nontrivN++
			l.counters["config_after_a_burst_of_reconfigurations"]++
			fresh, _ := cors.NewMiddleware(b)
			got, want := m.Config(), fresh.Config()
			if !configEqual(got, want) {
				r.Violate("config-stale-after-burst", "round-trip", fmt.Sprintf("Config() called, then %d successful reconfigurations (nil in between: %v), the last one to %s: Config() returns %s", k, withNil, cfgString(want), cfgString(got)), nil)
				return
			}
			o := serve(m, preflightReq("https://b.example.com", "DELETE", []string{"x-b"}, false))
			if !(o.ok2xx() && len(o.get(hACAO)) > 0) {
				r.Violate("config-stale-after-burst", "round-trip", fmt.Sprintf("after %d successful reconfigurations the middleware does not answer according to the last one: %s", k, o), nil)
				return
			}
		}
	})
}

// c06Integers: every max-age in [-1, 86400] and every status in {0, 200..299}: Config() reports the value (or its documented
// equivalent) and a middleware built from Config() sends the same Access-Control-Max-Age / status
// (lesson of seeded changes C03-o, C06-l: one integer value treated specially).
func c06Integers(r *Run) {
	if r.Replaying() || r.Phase == "coverage" {
		return
	}
	const chunks = 64
	r.Parallel(chunks, func(l *Local) {
		pf := preflightReq("https://example.com", "PUT", nil, false)
		for v := -1 + l.Batch; v <= 86400; v += chunks {
			cfg := cors.Config{Origins: []string{"https://example.com"}, Methods: []string{"PUT"}, MaxAgeInSeconds: v}
			m, err := cors.NewMiddleware(cfg)
			l.evals++
			if err != nil {
				r.Violate("valid-rejected", "round-trip", fmt.Sprintf("max-age %d rejected: %v", v, err), nil)
				return
			}
			o := serve(m, pf)
			want := []string{strconv.Itoa(v)}
			if v == -1 {
				want = []string{"0"}
			} else if v == 0 {
				want = nil
			}
			if !equalStrings(o.get(hACMA), want) {
				r.Violate("max-age-not-as-configured", "round-trip", fmt.Sprintf("MaxAgeInSeconds %d: a succeeding preflight carries Access-Control-Max-Age %q, expected %q", v, o.get(hACMA), want), nil)
				return
			}
			m2, err := cors.NewMiddleware(*m.Config())
			if err != nil || !serve(m2, pf).Equal(o) {
				r.Violate("constructors-disagree", "round-trip", fmt.Sprintf("MaxAgeInSeconds %d: a middleware built from Config() (%s) answers differently (%v)", v, cfgString(m.Config()), err), nil)
				return
			}
			l.nontrivN++
		}
		for st := 200 + l.Batch; st <= 299; st += chunks {
			cfg := cors.Config{Origins: []string{"https://example.com"}, Methods: []string{"PUT"}, MaxAgeInSeconds: 7, ExtraConfig: cors.ExtraConfig{PreflightSuccessStatus: st}}
			m, err := cors.NewMiddleware(cfg)
			l.evals++
			if err != nil {
				r.Violate("valid-rejected", "round-trip", fmt.Sprintf("status %d rejected: %v", st, err), nil)
				return
			}
			for _, dbg := range []bool{false, true} {
				m.SetDebug(dbg)
				o := serve(m, pf)
				if o.Status != st {
					r.Violate("status-not-as-configured", "round-trip", fmt.Sprintf("PreflightSuccessStatus %d (debug=%v): a succeeding preflight is answered with status %d", st, dbg, o.Status), nil)
					return
				}
				if dbg { // (which ok status a FAILING preflight gets in debug mode is left open: only "an ok status")
					if f := serve(m, preflightReq("https://example.com", "UNLISTED", nil, false)); !f.ok2xx() {
						r.Violate("debug-failure-status-not-ok", "round-trip", fmt.Sprintf("PreflightSuccessStatus %d, debug on: a preflight failing at the method step is answered with status %d, which is not an ok status", st, f.Status), nil)
						return
					}
				}
			}
			m.SetDebug(false)
			m2, err := cors.NewMiddleware(*m.Config())
			if err != nil || !serve(m2, pf).Equal(serve(m, pf)) {
				r.Violate("constructors-disagree", "round-trip", fmt.Sprintf("PreflightSuccessStatus %d: a middleware built from Config() answers differently (%v)", st, err), nil)
				return
			}
		}
	})
	r.Exhaustive("every MaxAgeInSeconds in [-1, 86400] and every PreflightSuccessStatus in [200, 299]: header / status as configured, and the same from a middleware built from Config()")
}

func TestVerif_C06(t *testing.T) {
	r := newRun(t, "C06")
	r.Rule("valid configurations by construction (cross-field generator of C05 enriched with IPv4/IPv6 literals sharing suffixes, trailing-dot hosts, `*.`/`:*`/both, duplicate and mutually subsuming patterns in both orders, `*` next to discrete values in each list, safelisted-only lists, max-age -1/0, status 204/200/299) + the C02 product; " +
		"each with a request suite derived from it (near-miss origin probes as GET and preflight, one request per method/header/PNA dimension) answered in both debug modes by New(c), New(*New(c).Config()), zero-value.Reconfigure(&c) and before/after m.Reconfigure(m.Config()); Config() fixpoint after one round trip. " +
		"evaluation = one configuration (about 100 requests x 2 debug modes x 5 runs); non-trivial = configuration whose Config() differs from the input (normalisation happened), distinct by hash")
	r.Assume("configurations are valid by construction (their acceptance is also checked here); response equality is on status, all headers and body with a constant inner handler")

	var rc c06Case
	if r.LoadReplay(nil, &rc) {
		l := r.newLocal(0)
		c06Run(r, l, rc.Spec)
		r.merge(l)
		r.Finish(0)
		return
	}
	c06Bursts(r)
	c06Integers(r)
	prod, _ := c02Product()
	stride := pick(r, 11, 1)
	r.Parallel(len(prod), func(l *Local) {
		if r.visit(l.Batch, stride) {
			c06Run(r, l, prod[l.Batch])
		}
	})
	nb := pick(r, 64, 1024)
	per := pick(r, 60, 200)
	r.Parallel(nb, func(l *Local) {
		for i := 0; i < per; i++ {
			c := randRichValidCfg(l.Rng)
			c06Run(r, l, c)
			if l.Batch == 0 && i < 3 {
				l.Sample("valid-config", c06Case{c})
			}
		}
	})
	r.Finish(1000)
}
