//go:build verif

package verifharness_test

import (
	"fmt"
	"math/rand/v2"
	"net/http"
	"runtime"
	"strconv"
	"strings"
	"sync/atomic"
	"testing"
	"time"

	"github.com/jub0bs/cors"
)

// C11 - preflights are answered by the middleware alone; everything else passes intact.
// Differential against a reference run (same chain and handler, no CORS middleware) + identity spy.

type hdrOp struct {
	Op    string `json:"op"` // set | add | del
	Key   string `json:"key"`
	Val   string `json:"val,omitempty"`
	After bool   `json:"after_write_header,omitempty"`
}

type handlerProg struct {
	Status int     `json:"status"` // 0 = never calls WriteHeader
	Body   string  `json:"body"`
	Ops    []hdrOp `json:"ops"`
}

type c11Case struct {
	Spec        *CfgSpec    `json:"spec,omitempty"` // nil = passthrough
	Passthrough string      `json:"passthrough,omitempty"`
	Debug       bool        `json:"debug"`
	Preset      []hdrOp     `json:"preset"`
	Handler     handlerProg `json:"handler"`
	Req         Req         `json:"request"`
	// Nested: between its header operations and WriteHeader the handler sends a second request (same request, the
	// same program with every value suffixed "-nested") through the same wrapped handler - the deterministic
	// stand-in for a concurrent exchange (lesson of seeded change C11-h: response-header slices shared between exchanges)
	Nested bool `json:"nested,omitempty"`
	// Reenter: between its header operations and WriteHeader the handler calls one of the middleware's own methods
	// ("setdebug": SetDebug(current mode); "config": Config(); "reconfigure-config": Reconfigure(Config()), the documented
	// no-op) - an admin endpoint behind the middleware it administers; "Middleware are safe for concurrent use"
	// (lesson of seeded change C11-i: a lock held while the wrapped handler runs)
	Reenter string `json:"reenter,omitempty"`
}

type spyHandler struct {
	prog   handlerProg
	calls  int
	gotReq *http.Request
	gotW   http.ResponseWriter
	entry  http.Header // response headers as the handler found them
	nested func()      // run between the header operations and WriteHeader
}

func applyOp(h http.Header, op hdrOp) {
	switch op.Op {
	case "set":
		h.Set(op.Key, op.Val)
	case "add":
		h.Add(op.Key, op.Val)
	case "del":
		h.Del(op.Key)
	}
}

func (s *spyHandler) ServeHTTP(w http.ResponseWriter, r *http.Request) {
	s.calls++
	s.gotReq, s.gotW = r, w
	s.entry = cloneHeader(w.Header())
	for _, op := range s.prog.Ops {
		if !op.After {
			applyOp(w.Header(), op)
		}
	}
	if s.nested != nil {
		s.nested()
	}
	if s.prog.Status != 0 {
		w.WriteHeader(s.prog.Status)
	}
	for _, op := range s.prog.Ops {
		if op.After {
			applyOp(w.Header(), op)
		}
	}
	if s.prog.Body != "" {
		w.Write([]byte(s.prog.Body))
	}
}

type presetMW struct {
	ops  []hdrOp
	next http.Handler
}

func (p presetMW) ServeHTTP(w http.ResponseWriter, r *http.Request) {
	for _, op := range p.ops {
		applyOp(w.Header(), op)
	}
	p.next.ServeHTTP(w, r)
}

var corsTouchable = map[string]bool{hVary: true, hACAO: true, hACAC: true, hACEH: true}

func c11Run(r *Run, l *Local, cs c11Case, mw *cors.Middleware) {
	l.cur = func() any { return cs }
	q := expandReq(cs.Req)
	// reference run: same chain, no CORS middleware
	refSpy := &spyHandler{prog: cs.Handler}
	refW := newRW()
	presetMW{cs.Preset, refSpy}.ServeHTTP(refW, q.httpReq())
	ref := refW.obs(refSpy.calls)
	// real run
	spy := &spyHandler{prog: cs.Handler}
	w := newRW()
	req := q.httpReq()
	w.inner = spy
	var nestedGot, nestedSim Obs
	nestedRan := false
	if cs.Nested {
		nprog := handlerProg{Status: cs.Handler.Status, Body: cs.Handler.Body}
		for _, op := range cs.Handler.Ops {
			op.Val += "-nested"
			nprog.Ops = append(nprog.Ops, op)
		}
		spy.nested = func() {
			nspy := &spyHandler{prog: nprog}
			nw := newRW()
			nw.inner = nspy
			nreq := q.httpReq()
			presetMW{cs.Preset, wrappedOnce(mw)}.ServeHTTP(nw, nreq)
			nestedGot = nw.obs(nspy.calls)
			if nspy.calls == 1 {
				simSpy := &spyHandler{prog: nprog}
				simW := newRW()
				simW.h = cloneHeader(nspy.entry)
				simSpy.ServeHTTP(simW, nreq)
				nestedSim = simW.obs(1)
				nestedRan = true
			}
		}
	}
	reenterBlocked := ""
	if cs.Reenter != "" && !cs.Nested && !reenterDisabled.Load() {
		spy.nested = func() {
			reenterBlocked = runGuarded(func() {
				switch cs.Reenter {
				case "setdebug":
					mw.SetDebug(cs.Debug && cs.Spec != nil)
				case "config":
					mw.Config()
				case "reconfigure-config":
					mw.Reconfigure(mw.Config())
				}
			})
		}
	}
	presetMW{cs.Preset, wrappedOnce(mw)}.ServeHTTP(w, req)
	got := w.obs(spy.calls)
	if reenterBlocked != "" {
		reenterDisabled.Store(true) // one witness is enough: every further blocked call would cost the watchdog time
	}
	if reenterBlocked == "?" {
		r.Inconclusive("a re-entrant call did not return within the watchdog time and its goroutine state could not be attributed to the middleware")
	} else if reenterBlocked != "" {
		r.Violate("reentrant-call-blocked", "reference-run", fmt.Sprintf("the wrapped handler called the middleware's own method (%s) and that call is blocked (%s) while the middleware waits for the handler to return: the response can never reach the client | request %s", cs.Reenter, reenterBlocked, reqString(q)), cs)
		return
	}
	l.evals++
	report := func(key, msg string) {
		r.Violate(key, "reference-run", fmt.Sprintf("%s | request %s | real %s | reference %s | handler %+v | preset %+v", msg, reqString(q), got, ref, cs.Handler, cs.Preset), cs)
	}
	passthrough := cs.Spec == nil
	preflight := !passthrough && isPreflightReq(q)
	if preflight {
		l.n1++
		if spy.calls != 0 {
			report("preflight-reached-handler", fmt.Sprintf("CORS-preflight request reached the wrapped handler (%d call(s))", spy.calls))
		}
		if len(w.body) != 0 || w.writes != 0 {
			report("preflight-body", "CORS-preflight response has a body")
		}
		return
	}
	l.n2++
	if spy.calls != 1 {
		report("handler-call-count", fmt.Sprintf("non-preflight request reached the wrapped handler %d times", spy.calls))
		return
	}
	if spy.gotReq != req {
		report("request-identity", "the wrapped handler received a different *http.Request")
	}
	if spy.gotW != http.ResponseWriter(w) {
		report("writer-identity", "the wrapped handler received a different http.ResponseWriter")
	}
	if got.Status != ref.Status || got.Body != ref.Body || w.wroteHeader != refW.wroteHeader || w.writes != refW.writes {
		report("status-or-body", fmt.Sprintf("status/body differ from the handler's own output (WriteHeader calls %d vs %d)", w.wroteHeader, refW.wroteHeader))
	}
	// (a) what the handler found: headers set earlier in the chain are intact, except that the
	// middleware may have appended to Vary and set ACAO/ACAC/ACEH
	P, X := refSpy.entry, spy.entry
	for k, pv := range P {
		xv := X[k]
		switch {
		case passthrough || !corsTouchable[k]:
			if !equalStrings(pv, xv) {
				report("preset-header-altered", fmt.Sprintf("header %s set earlier in the chain: %q, seen by the handler as %q", k, pv, xv))
			}
		case k == hVary:
			if !isSubsequence(pv, xv) {
				report("preset-vary-lost", fmt.Sprintf("Vary values %q set earlier in the chain are not preserved (handler saw %q)", pv, xv))
			}
		}
	}
	for k, xv := range X {
		if _, ok := P[k]; !ok && len(xv) > 0 && (passthrough || !corsTouchable[k]) {
			report("header-added", fmt.Sprintf("header %s: %q added although the middleware may only touch Vary/ACAO/ACAC/ACEH", k, xv))
		}
	}
	// (b) what the client gets: exactly the handler's program applied to what it found
	simSpy := &spyHandler{prog: cs.Handler}
	simW := newRW()
	simW.h = cloneHeader(X)
	simSpy.ServeHTTP(simW, req)
	sim := simW.obs(1)
	if !equalHeaderMaps(sim.Headers, got.Headers) {
		report("handler-output-altered", fmt.Sprintf("final headers differ from the handler's program applied to the headers it found: expected %v", Obs{Status: sim.Status, Headers: sim.Headers}))
	}
	if nestedRan && !equalHeaderMaps(nestedSim.Headers, nestedGot.Headers) {
		report("handler-output-altered", fmt.Sprintf("final headers of the nested exchange %v differ from its handler's program applied to the headers it found: expected %v", nestedGot, Obs{Status: nestedSim.Status, Headers: nestedSim.Headers}))
	}
}

// runGuarded runs f on its own goroutine and waits for it. If f has not returned after a generous watchdog time
// (f takes microseconds), the goroutine's scheduler state is inspected: a goroutine parked in a mutex/semaphore
// acquisition with a frame of the library on its stack is blocked on a lock of the middleware - the verdict comes from
// that state, not from the elapsed time. Returns "" (returned), a description of the blocked state, or "?" (unknown).
var reenterDisabled atomic.Bool

func runGuarded(f func()) string {
	done := make(chan struct{})
	go func() {
		f()
		close(done)
	}()
	select {
	case <-done:
		return ""
	case <-time.After(8 * time.Second):
	}
	buf := make([]byte, 8<<20)
	buf = buf[:runtime.Stack(buf, true)]
	for _, g := range strings.Split(string(buf), "\n\n") {
		if !strings.Contains(g, "runGuarded") || !strings.Contains(g, "github.com/jub0bs/cors.(*Middleware)") {
			continue
		}
		head := g
		if i := strings.IndexByte(g, '\n'); i >= 0 {
			head = g[:i]
		}
		if strings.Contains(head, "Mutex") || strings.Contains(head, "semacquire") || strings.Contains(head, "sync.") {
			return strings.TrimSuffix(strings.SplitN(head, "[", 2)[1], "]:")
		}
	}
	select {
	case <-done:
		return ""
	default:
	}
	return "?"
}

func equalHeaderMaps(a, b map[string][]string) bool {
	if len(a) != len(b) {
		return false
	}
	for k, v := range a {
		if w, ok := b[k]; !ok || !equalStrings(v, w) {
			return false
		}
	}
	return true
}

var (
	c11Methods = []string{"GET", "POST", "PUT", "OPTIONS", "options", "HEAD", "CONNECT", "OPTIONS ", "Options", "DELETE"}
	c11Status  = []int{0, 200, 204, 404, 500, 301}
	c11Bodies  = []string{"", "hello", "x"}
	c11Keys    = []string{hVary, hACAO, hACAC, hACEH, "Content-Type", "X-Custom", hACAM, hACMA, "Set-Cookie"}
	c11Vals    = []string{"v1", "*", "Origin", "Accept-Encoding", "true", "https://example.com", "x-a, x-b"}
)

func randProg(rng *rand.Rand) handlerProg {
	p := handlerProg{Status: choose(rng, c11Status), Body: choose(rng, c11Bodies)}
	for k := rng.IntN(5); k > 0; k-- {
		p.Ops = append(p.Ops, hdrOp{Op: choose(rng, []string{"set", "add", "add", "del"}), Key: choose(rng, c11Keys), Val: choose(rng, c11Vals), After: rng.IntN(5) == 0})
	}
	return p
}

func randPreset(rng *rand.Rand) []hdrOp {
	var ops []hdrOp
	for k := rng.IntN(4); k > 0; k-- {
		ops = append(ops, hdrOp{Op: choose(rng, []string{"set", "add"}), Key: choose(rng, c11Keys), Val: choose(rng, c11Vals)})
	}
	return ops
}

func TestVerif_C11(t *testing.T) {
	r := newRun(t, "C11")
	r.Rule("configurations (C02 product slice, zero value, Reconfigure(nil) after a configuration) x debug x the preflight-predicate boundary: 10 method tokens x Origin in {absent, zero values, [\"\"], one value, two values, values of 267 / 327 / 408 / 4115 bytes, `null`, `*`, `https://`} x ACRM likewise (exhaustive 400-cell grid per configuration) " +
		"x inner handlers (status none/200/204/404/500/301, bodies, Set/Add/Del programs on Vary/ACAO/ACAC/ACEH/Content-Type/X-Custom/ACAM/ACMA/Set-Cookie before and after WriteHeader) x pre-set headers from an outer middleware; in a third of the cells the handler sends a nested request with differing values through the same middleware between its header operations and WriteHeader (two exchanges in flight at once), in a sixth it calls SetDebug(current mode) / Config() / Reconfigure(Config()) on the middleware that wraps it. " +
		"evaluation = one exchange compared with a reference run of the same chain without the CORS middleware, plus identity/count spy; non-trivial = every cell (each exercises the predicate or the pass-through contract), distinct by hash of configuration, chain and request")
	r.Assume("the reference run (same outer chain and handler, CORS middleware removed) defines the handler's own output")

	var rc c11Case
	if r.LoadReplay(nil, &rc) {
		l := r.newLocal(0)
		var mw *cors.Middleware
		switch {
		case rc.Spec != nil:
			var err error
			mw, err = cors.NewMiddleware(rc.Spec.Config())
			if err != nil {
				t.Fatalf("replay: %v", err)
			}
			mw.SetDebug(rc.Debug)
		case rc.Passthrough == "reconfigure-nil":
			mw, _ = cors.NewMiddleware(prodSample().Config())
			mw.SetDebug(rc.Debug)
			mw.Reconfigure(nil)
		default:
			mw = new(cors.Middleware)
			mw.SetDebug(rc.Debug)
		}
		c11Run(r, l, rc, mw)
		r.merge(l)
		r.Finish(0)
		return
	}
	prod, _ := c02Product()
	cfgStride := pick(r, 23, 3)
	// Origin: absent, zero values, empty, one value, two values, and values an implementation might special-case
	// and values longer than any serialised origin (lesson of seeded change C11-r: the predicate is about presence, not value)
	shapes := [][]string{nil, {}, {""}, {"https://example.com"}, {"https://example.com", "https://other.invalid"}, {"null"}, {"*"}, {"https://"},
		{"https://" + longHost(253) + ":65535"}, {strings.Repeat("s", 64) + "://" + longHost(253) + ".:65535"}, {"https://" + strings.Repeat("a", 400)}, {"https://" + strings.Repeat("a.", 2048) + "example.com"}}
	acrmShapes := [][]string{nil, {}, {""}, {"PUT"}, {"GET", "PUT"}}
	nProgs := pick(r, 6, 12)
	// batches: configurations + 2 passthrough kinds
	r.Parallel(len(prod)+2*pick(r, 8, 64), func(l *Local) {
		rng := l.Rng
		var spec *CfgSpec
		pass := ""
		var mws [2]*cors.Middleware
		if l.Batch < len(prod) {
			if !r.visit(l.Batch, cfgStride) {
				return
			}
			spec = prod[l.Batch]
			for d := 0; d < 2; d++ {
				// the handler is wrapped ONCE, in the middleware's first state - which for two thirds of the
				// configurations is a passthrough or another configuration (Wrap must not freeze that state)
				var mw *cors.Middleware
				var err error
				switch (l.Batch + d) % 3 {
				case 0:
					mw, err = cors.NewMiddleware(spec.Config())
				case 1:
					mw = new(cors.Middleware)
					wrappedOnce(mw)
					c := spec.Config()
					err = mw.Reconfigure(&c)
				case 2:
					mw, err = cors.NewMiddleware(viaOther)
					if err == nil {
						wrappedOnce(mw)
						mw.Reconfigure(nil)
						c := spec.Config()
						err = mw.Reconfigure(&c)
					}
				}
				if err != nil {
					return
				}
				mw.SetDebug(d == 1)
				mws[d] = mw
			}
		} else if (l.Batch-len(prod))%2 == 0 {
			pass = "zero-value"
			mws[0] = new(cors.Middleware)
			mws[1] = new(cors.Middleware)
			mws[1].SetDebug(true)
		} else {
			pass = "reconfigure-nil"
			for d := 0; d < 2; d++ {
				mw, err := cors.NewMiddleware(prod[rng.IntN(len(prod))].Config())
				if err != nil {
					return
				}
				mw.SetDebug(d == 1)
				wrappedOnce(mw) // wrapped while configured, then turned into a passthrough
				if err := mw.Reconfigure(nil); err != nil {
					r.Violate("reconfigure-nil-error", "reference-run", fmt.Sprintf("Reconfigure(nil) returned %v", err), c11Case{Passthrough: pass})
				}
				mws[d] = mw
			}
		}
		key := "passthrough:" + pass
		if spec != nil {
			key = specKey(spec)
		}
		for pi := 0; pi < nProgs; pi++ {
			prog := randProg(rng)
			preset := randPreset(rng)
			if pi == 0 {
				prog, preset = handlerProg{Status: 0, Body: "ok"}, nil
			}
			for _, m := range c11Methods {
				for oi, ov := range shapes {
					for ai, av := range acrmShapes {
						d := (oi + ai + pi) % 2
						q := buildReq(m, ov, av, nil, nil, nil)
						if rng.IntN(4) == 0 {
							q.Header[hACRH] = []string{"x-listed-1"}
						}
						if rng.IntN(8) == 0 {
							q.Header[hACRPN] = []string{"true"}
						}
						cs := c11Case{Spec: spec, Passthrough: pass, Debug: d == 1, Preset: preset, Handler: prog, Req: q, Nested: (oi+2*ai+pi)%3 == 0}
						if cs.Nested {
							l.counters["cells_with_nested_exchange"]++
						} else if (oi+ai+2*pi)%5 == 0 {
							cs.Reenter = []string{"setdebug", "config", "reconfigure-config"}[(oi+ai+pi)%3]
							l.counters["cells_with_reentrant_call_"+cs.Reenter]++
						}
						c11Run(r, l, cs, mws[d])
						l.NontrivialKey(key, strconv.Itoa(d), jsonStr(prog), jsonStr(preset), reqString(q))
						if l.nsamp < 2 && pi == 1 && oi == 3 && ai == 3 && m == "OPTIONS" {
							l.Sample("cell", cs)
						}
					}
				}
			}
		}
	})
	r.Exhaustive("per visited configuration and handler program: the full 10 x 12 x 5 grid of method x Origin shape x ACRM presence")
	r.mu.Lock()
	r.counters["preflight_cells"], r.counters["non_preflight_cells"] = r.counters["n1"], r.counters["n2"]
	delete(r.counters, "n1")
	delete(r.counters, "n2")
	r.mu.Unlock()
	r.Finish(5000)
}

func prodSample() *CfgSpec {
	p, _ := c02Product()
	return p[len(p)/2]
}
