//go:build verif

package verifharness_test

import (
	"errors"
	"fmt"
	"sort"
	"strconv"
	"strings"
	"testing"

	"github.com/jub0bs/cors/cfgerrors"
)

// C19 - cfgerrors.All yields exactly the leaves and honours early exit (also when one iterator value is used repeatedly).

// etree is a join tree by construction: a leaf (Kids == nil) or a join of Kids.
type etree struct {
	Leaf int      `json:"leaf,omitempty"` // leaf id (>0) when Kids == nil
	Kids []*etree `json:"kids,omitempty"`
	Nils int      `json:"nils,omitempty"` // nil arguments interleaved into the errors.Join call
}

func (t *etree) isLeaf() bool { return t.Kids == nil }

// wrapLeaf is a leaf that WRAPS (Unwrap() error) another error - a join of two or a single one: to errors.Join and to All it
// is a leaf like any other; what it wraps is not part of the tree (lesson of seeded change C19-q: joins recognised with
// errors.As, which also looks down Unwrap() error chains)
type wrapLeaf struct {
	id    int
	inner error
}

func (w *wrapLeaf) Error() string { return "ctx-" + strconv.Itoa(w.id) + ": " + w.inner.Error() }
func (w *wrapLeaf) Unwrap() error { return w.inner }

func leafErr(id int) error {
	switch id % 5 {
	case 3:
		return &wrapLeaf{id, errors.Join(&cfgerrors.UnacceptableMethodError{Value: "inner-a", Reason: "invalid"}, &cfgerrors.UnacceptableOriginPatternError{Value: "inner-b", Reason: "invalid"})}
	case 4:
		return &wrapLeaf{id, &cfgerrors.UnacceptableHeaderNameError{Value: "inner-c", Type: "request", Reason: "invalid"}}
	}
	switch id % 3 {
	case 0:
		return &cfgerrors.UnacceptableMethodError{Value: "leaf-" + strconv.Itoa(id), Reason: "invalid"}
	case 1:
		return &cfgerrors.UnacceptableOriginPatternError{Value: "leaf-" + strconv.Itoa(id), Reason: "invalid"}
	}
	return &cfgerrors.UnacceptableHeaderNameError{Value: "leaf-" + strconv.Itoa(id), Type: "request", Reason: "invalid"}
}

func leafID(e error) int {
	var v string
	switch e := e.(type) {
	case *wrapLeaf:
		return e.id
	case *cfgerrors.UnacceptableMethodError:
		v = e.Value
	case *cfgerrors.UnacceptableOriginPatternError:
		v = e.Value
	case *cfgerrors.UnacceptableHeaderNameError:
		v = e.Value
	default:
		return -1
	}
	id, err := strconv.Atoi(strings.TrimPrefix(v, "leaf-"))
	if err != nil {
		return -1
	}
	return id
}

// build materialises the tree with errors.Join and returns the leaf ids (independent flattening).
func (t *etree) build(ids *[]int) error {
	if t.isLeaf() {
		*ids = append(*ids, t.Leaf)
		return leafErr(t.Leaf)
	}
	args := make([]error, 0, len(t.Kids)+t.Nils)
	for i, k := range t.Kids {
		if i < t.Nils {
			args = append(args, nil)
		}
		args = append(args, k.build(ids))
	}
	for i := len(t.Kids); i < t.Nils; i++ {
		args = append(args, nil)
	}
	return errors.Join(args...)
}

func (t *etree) String() string {
	if t.isLeaf() {
		return strconv.Itoa(t.Leaf)
	}
	parts := make([]string, len(t.Kids))
	for i, k := range t.Kids {
		parts[i] = k.String()
	}
	s := "J(" + strings.Join(parts, ",") + ")"
	if t.Nils > 0 {
		s += "+" + strconv.Itoa(t.Nils) + "nil"
	}
	return s
}

type c19Case struct {
	Tree  *etree `json:"tree"`
	Break int    `json:"break_after"` // -1 = no break
}

func sortedInts(a []int) []int {
	b := append([]int(nil), a...)
	sort.Ints(b)
	return b
}

func equalInts(a, b []int) bool {
	if len(a) != len(b) {
		return false
	}
	for i := range a {
		if a[i] != b[i] {
			return false
		}
	}
	return true
}

func c19Check(r *Run, l *Local, t *etree) {
	var want []int
	err := t.build(&want)
	n := len(want)
	l.cur = func() any { return c19Case{t, -1} }
	// full traversal, via range-over-func
	var got []int
	for e := range cfgerrors.All(err) {
		got = append(got, leafID(e))
	}
	l.evals++
	if !equalInts(sortedInts(got), sortedInts(want)) {
		r.Violate("leaves-mismatch", "flatten-vs-All", fmt.Sprintf("tree %s: All yielded leaves %v, the tree has leaves %v", t, got, want), c19Case{t, -1})
		return
	}
	// every break position, (a) calling the iter.Seq directly with a counting yield, (b) with for-range + break
	for k := 0; k < n; k++ {
		l.evals++
		calls, after := 0, 0
		stopped := false
		func() {
			defer func() {
				if p := recover(); p != nil {
					r.Violate("panic-on-early-exit", "early-exit", fmt.Sprintf("tree %s, consumer stops after %d element(s): panic %v", t, k+1, p), c19Case{t, k})
				}
			}()
			cfgerrors.All(err)(func(e error) bool {
				calls++
				if stopped {
					after++
					return false
				}
				if calls == k+1 {
					stopped = true
					return false
				}
				return true
			})
		}()
		if after > 0 || calls != k+1 {
			r.Violate("yield-after-stop", "early-exit", fmt.Sprintf("tree %s, consumer stops after %d element(s): yield was called %d more time(s)", t, k+1, after), c19Case{t, k})
		}
		func() {
			defer func() {
				if p := recover(); p != nil {
					r.Violate("panic-on-break", "early-exit", fmt.Sprintf("tree %s, `break` after %d element(s): panic %v", t, k+1, p), c19Case{t, k})
				}
			}()
			seen := 0
			for range cfgerrors.All(err) {
				seen++
				if seen == k+1 {
					break
				}
			}
			if seen != k+1 {
				r.Violate("break-count", "early-exit", fmt.Sprintf("tree %s, `break` after %d element(s): loop body ran %d times", t, k+1, seen), c19Case{t, k})
			}
		}()
	}
	// (what follows ranges over iterators outside the per-position recover of the loop above: a panic raised there - by the
	// Go runtime, when an iterator goes on after its consumer stopped - is a violation to report, not a reason to die)
	defer func() {
		if p := recover(); p != nil {
			r.Violate("panic-during-traversal", "early-exit", fmt.Sprintf("tree %s: panic while ranging over a re-used iterator value: %v", t, p), c19Case{t, -1})
		}
	}()
	// ONE iterator value used again and again (an iter.Seq is a function value: nothing says it is single-use): a full
	// traversal, then for every break position an early exit followed by a full traversal, all on the same value
	// (lesson of seeded change C19-i: traversal state kept in the closure that All returns instead of per traversal)
	seq := cfgerrors.All(err)
	full := func(stage string, k int) bool {
		var again []int
		for e := range seq {
			again = append(again, leafID(e))
		}
		l.evals++
		if !equalInts(sortedInts(again), sortedInts(want)) {
			r.Violate("reused-iterator", "flatten-vs-All", fmt.Sprintf("tree %s: the iterator value returned by one call of All, ranged over again %s, yielded leaves %v; the tree has leaves %v", t, stage, again, want), c19Case{t, k})
			return false
		}
		return true
	}
	if !full("after a full traversal (first pass)", -1) || !full("after a full traversal", -1) {
		return
	}
	for k := 0; k < n; k++ {
		seen := 0
		for range seq {
			seen++
			if seen == k+1 {
				break
			}
		}
		if !full(fmt.Sprintf("after a `break` at element %d", k+1), k) {
			return
		}
	}
	// a consumer whose loop body PANICS at element k+1 and recovers further up (an http.Handler under net/http does exactly
	// that): the traversals that follow - of the same value and of fresh ones - are complete and exact
	// (lesson of seeded change C19-p: traversal scratch space borrowed from a pool and handed back dirty when unwinding)
	for k := 0; k < n && k < 24; k++ {
		func() {
			defer func() { _ = recover() }()
			seen := 0
			for range seq {
				seen++
				if seen == k+1 {
					panic("verif: consumer gives up")
				}
			}
		}()
		if !full(fmt.Sprintf("after the loop body panicked at element %d", k+1), k) {
			return
		}
		var fresh []int
		for e := range cfgerrors.All(err) {
			fresh = append(fresh, leafID(e))
		}
		l.evals++
		if !equalInts(sortedInts(fresh), sortedInts(want)) {
			r.Violate("traversal-after-panicking-consumer", "flatten-vs-All", fmt.Sprintf("tree %s: after a consumer panicked at element %d of an earlier traversal, a fresh All yielded leaves %v; the tree has leaves %v", t, k+1, fresh, want), c19Case{t, k})
			return
		}
	}
	// OVERLAPPING traversals of one iterator value: inside the body of a range over seq, seq is ranged over again in full;
	// each inner traversal and the outer one yield exactly the leaves
	// (lesson of seeded change C05-p: traversal state shared by all traversals of one iter.Seq value)
	if n <= 48 {
		var outer []int
		for e := range seq {
			outer = append(outer, leafID(e))
			if !full(fmt.Sprintf("while an outer traversal of the same value stands at element %d", len(outer)), len(outer)-1) {
				return
			}
			if len(outer) > 4*n+8 {
				break
			}
		}
		l.evals++
		if !equalInts(sortedInts(outer), sortedInts(want)) {
			r.Violate("overlapping-traversals", "flatten-vs-All", fmt.Sprintf("tree %s: a traversal during which the same iterator value was ranged over again yielded leaves %v; the tree has leaves %v", t, outer, want), c19Case{t, -1})
			return
		}
	}
}

// enumTrees enumerates all plane trees with exactly n leaves and depth <= d whose internal nodes are joins (arity >= 1).
func enumTrees(n, d int, memo map[[2]int][]*etree) []*etree {
	key := [2]int{n, d}
	if v, ok := memo[key]; ok {
		return v
	}
	var out []*etree
	if n == 1 {
		out = append(out, &etree{Leaf: 1})
	}
	if d > 0 {
		// sequences of children with leaf counts summing to n, each of depth <= d-1
		var rec func(rem int, cur []*etree)
		rec = func(rem int, cur []*etree) {
			if rem == 0 {
				out = append(out, &etree{Kids: append([]*etree{}, cur...)})
				return
			}
			for k := 1; k <= rem; k++ {
				for _, sub := range enumTrees(k, d-1, memo) {
					rec(rem-k, append(cur, sub))
				}
			}
		}
		rec(n, nil)
	}
	memo[key] = out
	return out
}

// relabel gives every leaf a distinct id (the enumeration shares subtrees).
func relabel(t *etree, next *int) *etree {
	if t.isLeaf() {
		*next++
		return &etree{Leaf: *next}
	}
	c := &etree{Kids: make([]*etree, len(t.Kids)), Nils: t.Nils}
	for i, k := range t.Kids {
		c.Kids[i] = relabel(k, next)
	}
	return c
}

func leafCountByUnwrap(err error) int {
	if u, ok := err.(interface{ Unwrap() []error }); ok {
		n := 0
		for _, e := range u.Unwrap() {
			n += leafCountByUnwrap(e)
		}
		return n
	}
	return 1
}

func TestVerif_C19(t *testing.T) {
	r := newRun(t, "C19")
	r.Rule("exhaustive: every plane tree with <= N leaves and depth <= D whose internal nodes are errors.Join calls (joins of one included; a variant of each tree with nil arguments interleaved) x every break position, both by calling the iter.Seq with a counting yield and by for-range + break, and ONE iterator value traversed repeatedly (full, then after an early exit at every position); " +
		"PRNG trees up to 10^4 leaves / depth 10^4; the error population of the C05 generator (yield count = leaf count by an own Unwrap walk, within the expected number of violations). evaluation = one traversal; non-trivial = (tree, break position) with >= 2 leaves, distinct by construction")
	r.Assume("leaves are pointers to exported cfgerrors types carrying unique ids; the yielded order is unspecified, so multisets are compared")

	var rc c19Case
	if r.LoadReplay(nil, &rc) {
		l := r.newLocal(0)
		if rc.Tree != nil {
			c19Check(r, l, rc.Tree)
		}
		r.merge(l)
		r.Finish(0)
		return
	}
	maxLeaves := pick(r, 6, 7)
	maxDepth := pick(r, 3, 4)
	memo := map[[2]int][]*etree{}
	var all []*etree
	for n := 1; n <= maxLeaves; n++ {
		all = append(all, enumTrees(n, maxDepth, memo)...)
	}
	r.Set("enumerated_trees", len(all))
	nb := 256
	r.Parallel(nb, func(l *Local) {
		for i := l.Batch; i < len(all); i += nb {
			id := 0
			t := relabel(all[i], &id)
			c19Check(r, l, t)
			if id >= 2 {
				l.nontrivN += int64(id) + 1
			}
			// nil-interleaved variant
			if !t.isLeaf() {
				t2 := relabel(all[i], new(int))
				var mark func(x *etree, k int)
				mark = func(x *etree, k int) {
					if x.isLeaf() {
						return
					}
					x.Nils = (k % 3)
					for j, c := range x.Kids {
						mark(c, k+j+1)
					}
				}
				mark(t2, i)
				c19Check(r, l, t2)
			}
			if i == 1234 {
				l.Sample("enumerated", c19Case{t, 1})
			}
		}
	})
	r.Exhaustive(fmt.Sprintf("all %d join trees with <= %d leaves and depth <= %d x every break position (plus a nil-interleaved variant of each)", len(all), maxLeaves, maxDepth))

	// PRNG: big and deep trees
	r.Parallel(pick(r, 32, 256), func(l *Local) {
		rng := l.Rng
		var gen func(leaves, depth int, id *int) *etree
		gen = func(leaves, depth int, id *int) *etree {
			if leaves == 1 && (depth == 0 || rng.IntN(3) == 0) {
				*id++
				return &etree{Leaf: *id}
			}
			if depth == 0 {
				t := &etree{}
				for i := 0; i < leaves; i++ {
					*id++
					t.Kids = append(t.Kids, &etree{Leaf: *id})
				}
				return t
			}
			t := &etree{Nils: rng.IntN(3)}
			rem := leaves
			for rem > 0 {
				k := 1 + rng.IntN(rem)
				if rng.IntN(3) == 0 {
					k = rem
				}
				t.Kids = append(t.Kids, gen(k, depth-1, id))
				rem -= k
			}
			return t
		}
		for i := 0; i < 6; i++ {
			leaves := choose(rng, []int{2, 5, 17, 100, 400})
			depth := choose(rng, []int{1, 3, 10, 50})
			if l.Batch%16 == 0 && i == 0 {
				leaves, depth = 10000, 20
			}
			if l.Batch%16 == 1 && i == 0 {
				leaves, depth = 3, 10000 // a spine of joins-of-one
			}
			id := 0
			t := gen(leaves, depth, &id)
			if leaves <= 400 {
				c19Check(r, l, t)
				l.nontrivN += int64(id)
			} else {
				// too many break positions to try them all: full traversal + 20 break positions
				var want []int
				err := t.build(&want)
				var got []int
				for e := range cfgerrors.All(err) {
					got = append(got, leafID(e))
				}
				l.evals++
				if !equalInts(sortedInts(got), sortedInts(want)) {
					r.Violate("leaves-mismatch", "flatten-vs-All", fmt.Sprintf("PRNG tree with %d leaves: All yielded %d leaves", len(want), len(got)), map[string]any{"leaves": leaves, "depth": depth, "batch": l.Batch})
				}
				for _, k := range []int{0, 1, len(want) / 2, len(want) - 2, len(want) - 1} {
					calls := 0
					cfgerrors.All(err)(func(error) bool { calls++; return calls <= k })
					l.evals++
					if calls != k+1 {
						r.Violate("yield-after-stop", "early-exit", fmt.Sprintf("PRNG tree with %d leaves, stop after %d: yield called %d times", len(want), k+1, calls), map[string]any{"leaves": leaves, "depth": depth, "batch": l.Batch})
					}
					l.nontrivN++
				}
			}
		}
	})

	// middleware errors: yielded count == leaf count == number of individual violations reported
	r.Parallel(pick(r, 32, 256), func(l *Local) {
		rng := l.Rng
		for i := 0; i < 400; i++ {
			c, _ := randInvalidCfg(rng, 1+i%12)
			cfg := c.Config()
			l.cur = func() any { return c05Case{c, "new", "C19"} }
			_, err := buildVia(entries[i%len(entries)], cfg)
			if err == nil {
				continue // C04's business
			}
			l.evals++
			n := 0
			for range cfgerrors.All(err) {
				n++
			}
			want := c.violations()
			lo, hi := len(want), 0
			for _, m := range want {
				hi += m
			}
			if lc := leafCountByUnwrap(err); n != lc || n < lo || n > hi {
				r.Violate("middleware-error-count", "All-vs-violations", fmt.Sprintf("All yields %d errors; the error tree has %d leaves; the configuration has between %d and %d individual violations | %s", n, lc, lo, hi, cfgString(&cfg)), c05Case{c, entries[i%len(entries)], "C19"})
			}
			if n >= 2 {
				l.NontrivialKey(cfgString(&cfg))
			}
			// break after the first error of a real error tree
			calls := 0
			cfgerrors.All(err)(func(error) bool { calls++; return false })
			if calls != 1 {
				r.Violate("yield-after-stop", "early-exit", fmt.Sprintf("middleware error, stop after 1: yield called %d times", calls), c05Case{c, entries[i%len(entries)], "C19"})
			}
		}
	})
	r.Finish(1000)
}
