//go:build verif

package verifharness_test

import (
	"fmt"
	"sort"
	"testing"

	"github.com/jub0bs/cors"
)

// C08 - a rejected Reconfigure leaves the middleware exactly as it was.

var secureLaterCfg = cors.Config{Origins: []string{"https://example.com", "https://*.example.com:8443"}, Methods: []string{"PUT"}, RequestHeaders: []string{"X-Listed-1"}, MaxAgeInSeconds: 44}

type c08Case struct {
	Prior   *CfgSpec `json:"prior"` // nil = passthrough
	Debug   bool     `json:"debug"`
	Invalid *CfgSpec `json:"invalid"`
	Note    string   `json:"note,omitempty"`
	// Via: how the prior configured state was reached: "new" (NewMiddleware), "zero-reconfigure",
	// "reconfigure-from-other" (NewMiddleware(Other) then Reconfigure), "reconfigure-twice"
	Via   string   `json:"via,omitempty"`
	Other *CfgSpec `json:"other,omitempty"`
}

func c08Run(r *Run, l *Local, cs c08Case) {
	l.cur = func() any { return cs }
	l.evals++
	var m *cors.Middleware
	if cs.Prior == nil {
		m = new(cors.Middleware)
		if cs.Debug { // reach passthrough through Reconfigure(nil) instead of the zero value
			mm, err := cors.NewMiddleware(prodSample().Config())
			if err != nil {
				return
			}
			mm.SetDebug(true)
			mm.Reconfigure(nil)
			m = mm
		}
	} else {
		var err error
		pc := cs.Prior.Config()
		switch cs.Via {
		case "zero-reconfigure":
			m = new(cors.Middleware)
			err = m.Reconfigure(&pc)
		case "reconfigure-from-other", "reconfigure-twice":
			oc := cs.Other.Config()
			m, err = cors.NewMiddleware(oc)
			if err == nil && cs.Via == "reconfigure-twice" {
				pc2 := cs.Prior.Config()
				err = m.Reconfigure(&pc2)
				if err == nil {
					oc2 := cs.Other.Config()
					err = m.Reconfigure(&oc2)
				}
			}
			if err == nil {
				err = m.Reconfigure(&pc)
			}
		default:
			m, err = cors.NewMiddleware(pc)
		}
		if err != nil {
			return // C05's business
		}
		m.SetDebug(cs.Debug)
	}
	bad := cs.Invalid.Config()
	var suite []Req
	if cs.Prior != nil {
		suite = suiteFor(cs.Prior.Sem())
	}
	for _, q := range suiteFor(cs.Invalid.Sem()) {
		suite = append(suite, q)
	}
	before := runSuiteAsIs(m, suite)
	cfgBefore := m.Config()
	err := m.Reconfigure(&bad)
	fail := func(key, msg string) {
		p := "<passthrough>"
		if cs.Prior != nil {
			pc := cs.Prior.Config()
			p = cfgString(&pc)
		}
		r.Violate(key, "before-after", fmt.Sprintf("%s | prior %s debug=%v | invalid %s (violations %v)", msg, p, cs.Debug, cfgString(&bad), keysOf(cs.Invalid.violations())), cs)
	}
	if err == nil {
		fail("invalid-accepted", "Reconfigure accepted an invalid configuration")
		return
	}
	after := runSuiteAsIs(m, suite)
	if d := firstDiff(before, after); d >= 0 {
		fail("response-changed", fmt.Sprintf("after the rejected Reconfigure the answer to %s changed: %s, before: %s", reqString(suite[d]), after[d], before[d]))
	}
	cfgAfter := m.Config()
	if !configEqual(cfgBefore, cfgAfter) {
		fail("config-changed", fmt.Sprintf("Config() changed from %s to %s", cfgString(cfgBefore), cfgString(cfgAfter)))
	}
	if cs.Prior == nil && cfgAfter != nil {
		fail("config-changed", "passthrough middleware reports a configuration after a rejected Reconfigure")
	}
	// the rejected call left nothing behind that a LATER Reconfigure could pick up (lesson of seeded change C08-h:
	// validation results memoised per middleware): relatives of the rejected configuration - switches flipped,
	// integer violations repaired, invalid atoms dropped - are given to the same middleware; the invalid ones must be
	// rejected with the state unchanged, the valid ones must give what a fresh middleware gives.
	for vi, v := range c08Variants(cs.Invalid) {
		vc := v.Config()
		nviol := len(v.violations())
		err := m.Reconfigure(&vc)
		if nviol > 0 {
			if err == nil {
				fail("invalid-accepted-after-rejected", fmt.Sprintf("after the rejected Reconfigure, the invalid relative #%d %s (violations %v) was accepted", vi, cfgString(&vc), keysOf(v.violations())))
				return
			}
			if d := firstDiff(before, runSuiteAsIs(m, suite)); d >= 0 {
				fail("response-changed", fmt.Sprintf("after the rejected Reconfigure with relative #%d %s the answer to %s changed", vi, cfgString(&vc), reqString(suite[d])))
				return
			}
			continue
		}
		if err != nil {
			continue // C05's business (completeness of acceptance)
		}
		fresh, ferr := cors.NewMiddleware(v.Config())
		if ferr != nil {
			continue
		}
		fresh.SetDebug(cs.Prior != nil && cs.Debug)
		vsuite := append(append([]Req{}, suite...), suiteFor(v.Sem())...)
		if d := firstDiff(runSuiteAsIs(fresh, vsuite), runSuiteAsIs(m, vsuite)); d >= 0 {
			fail("rejected-call-left-something-behind", fmt.Sprintf("after the rejected Reconfigure and the valid relative #%d %s the answer to %s differs from a fresh middleware's", vi, cfgString(&vc), reqString(vsuite[d])))
			return
		}
		// back to the prior state
		if err := m.Reconfigure(cfgBefore); err != nil {
			return
		}
		if d := firstDiff(before, runSuiteAsIs(m, suite)); d >= 0 {
			fail("response-changed-later", fmt.Sprintf("after returning to the prior configuration the answer to %s changed", reqString(suite[d])))
			return
		}
	}
	// nothing is left behind: a later successful Reconfigure gives exactly what a fresh middleware gives
	if cs.Prior == nil {
		later := secureLaterCfg
		if err := m.Reconfigure(&later); err != nil {
			fail("later-reconfigure-error", fmt.Sprintf("a valid Reconfigure after the rejected one fails: %v", err))
		} else if fresh, ferr := cors.NewMiddleware(secureLaterCfg); ferr == nil {
			if d := firstDiff(runSuiteAsIs(fresh, suite), runSuiteAsIs(m, suite)); d >= 0 {
				fail("rejected-call-left-something-behind", fmt.Sprintf("after the rejected Reconfigure and a later valid one the answer to %s differs from a fresh middleware's", reqString(suite[d])))
			}
		}
	}
	// debug mode survives later successful operations as it was (a hidden change would surface here)
	if cs.Prior != nil {
		if err := m.Reconfigure(cfgAfter); err != nil {
			fail("roundtrip-error", fmt.Sprintf("m.Reconfigure(m.Config()) fails after the rejected Reconfigure: %v", err))
		} else if d := firstDiff(before, runSuiteAsIs(m, suite)); d >= 0 {
			fail("response-changed-later", fmt.Sprintf("after the rejected Reconfigure and a no-op round trip the answer to %s changed", reqString(suite[d])))
		}
	}
}

func cloneCfgSpec(c *CfgSpec) *CfgSpec {
	d := *c
	d.Origins = append([]OAtom(nil), c.Origins...)
	d.Methods = append([]MAtom(nil), c.Methods...)
	d.ReqHdrs = append([]HAtom(nil), c.ReqHdrs...)
	d.RespHdrs = append([]HAtom(nil), c.RespHdrs...)
	return &d
}

// c08Variants: relatives of an invalid configuration (deterministic): the same lists with the tolerate switches
// cleared / set, with out-of-range integers repaired, with invalid atoms dropped, and combinations.
func c08Variants(inv *CfgSpec) []*CfgSpec {
	repaired := cloneCfgSpec(inv)
	if repaired.MaxAge < -1 || repaired.MaxAge > 86400 {
		repaired.MaxAge = 30
	}
	if repaired.Status != 0 && (repaired.Status < 200 || repaired.Status > 299) {
		repaired.Status = 0
	}
	if repaired.PNA == pnaBoth {
		repaired.PNA = pnaOn
	}
	var os []OAtom
	for _, a := range repaired.Origins {
		if a.Kind != oInvalid {
			os = append(os, a)
		}
	}
	repaired.Origins = os
	var ms []MAtom
	for _, a := range repaired.Methods {
		if a.Kind != mInvalid && a.Kind != mForbidden {
			ms = append(ms, a)
		}
	}
	repaired.Methods = ms
	var hs []HAtom
	for _, a := range repaired.ReqHdrs {
		if a.Kind != hInvalid && a.Kind != hForbidden && a.Kind != hProhibited {
			hs = append(hs, a)
		}
	}
	repaired.ReqHdrs = hs
	hs = nil
	for _, a := range repaired.RespHdrs {
		if a.Kind != hInvalid && a.Kind != hForbidden && a.Kind != hProhibited {
			hs = append(hs, a)
		}
	}
	repaired.RespHdrs = hs
	var out []*CfgSpec
	for _, base := range []*CfgSpec{repaired, inv} {
		for sw := 0; sw < 4; sw++ {
			v := cloneCfgSpec(base)
			v.TolPSL = sw&1 != 0
			v.TolInsecure = sw&2 != 0
			if base == inv && (sw != 0 || !inv.TolPSL && !inv.TolInsecure) {
				continue // of the unrepaired configuration only the all-strict relative (if it differs)
			}
			out = append(out, v)
		}
	}
	// order: tolerant relatives first, strict ones last (what a tolerant call leaves behind must not help a strict one)
	sort.SliceStable(out, func(i, j int) bool {
		return b2i(out[i].TolPSL)+b2i(out[i].TolInsecure) > b2i(out[j].TolPSL)+b2i(out[j].TolInsecure)
	})
	return out
}

func TestVerif_C08(t *testing.T) {
	r := newRun(t, "C08")
	r.Rule("prior states: passthrough (zero value; Reconfigure(nil) after a configuration in debug mode) and accepted configurations (C02 product slice + C06 generator) reached by NewMiddleware, by Reconfigure on a zero value, or by one or three Reconfigure calls from another configuration, x debug off/on " +
		"x invalid configurations from the C05 generator with 1..12 injected violation kinds, including ones invalid only in the first validated field (status), only in the last (ResponseHeaders), and ones whose valid fields differ from the current state in every aspect. " +
		"and the prior configuration itself with its tolerate switches cleared. Observed before and after: answers to the union of both configurations' request suites, Config(), answers again after a no-op round trip, and the fate of up to 5 relatives of the rejected configuration (switches flipped, violations repaired) given to the same middleware afterwards: invalid ones rejected without effect, valid ones equal to a fresh middleware. evaluation = one (state, invalid config) pair; non-trivial = pair with a configured prior state, distinct by hash")
	r.Assume("invalid configurations are invalid by construction (S4)")

	var rc c08Case
	if r.LoadReplay(nil, &rc) {
		l := r.newLocal(0)
		c08Run(r, l, rc)
		r.merge(l)
		r.Finish(0)
		return
	}
	prod, _ := c02Product()
	nb := pick(r, 64, 512)
	per := pick(r, 120, 300)
	r.Parallel(nb, func(l *Local) {
		rng := l.Rng
		// every invalid atom of the catalogue, each as the ONLY violation of an otherwise valid configuration, spread over
		// the batches (lesson of seeded change C08-p: a single exotic invalid value - a port numeral that wraps around - accepted)
		single := func(idx int, mk func(inv *CfgSpec), note string) {
			if idx%nb != l.Batch {
				return
			}
			inv := randRichValidCfg(rng)
			mk(inv)
			if len(inv.violations()) == 0 {
				return
			}
			prior := prod[rng.IntN(len(prod))]
			cs := c08Case{Prior: prior, Debug: rng.IntN(2) == 0, Invalid: inv, Note: note, Via: "new"}
			c08Run(r, l, cs)
			l.NontrivialKey(specKey(prior), specKey(inv), fmt.Sprint(cs.Debug))
			l.counters["invalid_single-atom"]++
		}
		idx := 0
		for _, a := range invalidOriginAtoms {
			single(idx, func(inv *CfgSpec) { insertAt(rng, &inv.Origins, a) }, "single-origin-atom")
			idx++
		}
		for _, a := range append(append([]MAtom{}, invalidMethodAtoms...), forbiddenMethodAtoms...) {
			single(idx, func(inv *CfgSpec) { insertAt(rng, &inv.Methods, a) }, "single-method-atom")
			idx++
		}
		for _, a := range append(append(append([]HAtom{}, invalidHdrAtoms...), forbiddenReqHdrAtoms...), prohibitedReqHdrAtoms...) {
			single(idx, func(inv *CfgSpec) { insertAt(rng, &inv.ReqHdrs, a) }, "single-request-header-atom")
			idx++
		}
		for _, a := range append(append(append([]HAtom{}, invalidHdrAtoms...), forbiddenRespHdrAtoms...), prohibitedRespHdrAtoms...) {
			single(idx, func(inv *CfgSpec) { insertAt(rng, &inv.RespHdrs, a) }, "single-response-header-atom")
			idx++
		}
		for i := 0; i < per; i++ {
			var prior *CfgSpec
			switch rng.IntN(8) {
			case 0:
				prior = nil
			case 1, 2, 3:
				prior = prod[rng.IntN(len(prod))]
			default:
				prior = randRichValidCfg(rng)
			}
			var inv *CfgSpec
			note := ""
			switch rng.IntN(6) {
			case 0: // invalid only in the first validated field
				inv = randRichValidCfg(rng)
				inv.Status = choose(rng, invalidStatus)
				note = "only-status"
			case 1: // invalid only in the last validated field
				inv = randRichValidCfg(rng)
				insertAt(rng, &inv.RespHdrs, choose(rng, append(append([]HAtom{}, forbiddenRespHdrAtoms...), invalidHdrAtoms...)))
				note = "only-response-headers"
			case 2:
				inv = randRichValidCfg(rng)
				inv.MaxAge = choose(rng, invalidMaxAges)
				note = "only-max-age"
			case 3: // the prior configuration itself with the switches that made it acceptable cleared / the ones that make it unacceptable set
				if prior != nil {
					inv = cloneCfgSpec(prior)
					switch rng.IntN(4) {
					case 0:
						inv.TolPSL = false
					case 1:
						inv.TolInsecure = false
					case 2:
						inv.TolPSL, inv.TolInsecure = false, false
					default:
						inv.Cred = true
						inv.TolInsecure = false
					}
					note = "prior-with-switches-changed"
					break
				}
				fallthrough
			default:
				var names []string
				inv, names = randInvalidCfg(rng, 1+rng.IntN(12))
				note = fmt.Sprint(names)
			}
			if len(inv.violations()) == 0 {
				continue
			}
			cs := c08Case{Prior: prior, Debug: rng.IntN(2) == 0, Invalid: inv, Note: note}
			if prior != nil {
				cs.Via = choose(rng, []string{"new", "zero-reconfigure", "reconfigure-from-other", "reconfigure-twice"})
				if cs.Via == "reconfigure-from-other" || cs.Via == "reconfigure-twice" {
					cs.Other = randRichValidCfg(rng)
				}
				l.counters["prior_via_"+cs.Via]++
			}
			c08Run(r, l, cs)
			if prior != nil {
				l.NontrivialKey(specKey(prior), specKey(inv), fmt.Sprint(cs.Debug))
			}
			l.counters["invalid_"+firstWord(note)]++
			if l.Batch == 0 && i < 3 {
				l.Sample("pair", cs)
			}
		}
	})
	r.Finish(500)
}
