//go:build verif

package verifharness_test

import (
	"fmt"
	"testing"

	"github.com/jub0bs/cors"
)

// C08 - a rejected Reconfigure leaves the middleware exactly as it was.

var secureLaterCfg = cors.Config{Origins: []string{"https://example.com", "https://*.example.com:8443"}, Methods: []string{"PUT"}, RequestHeaders: []string{"X-Listed-1"}, MaxAgeInSeconds: 44}

type c08Case struct {
	Prior   *CfgSpec `json:"prior"` // nil = passthrough
	Debug   bool     `json:"debug"`
	Invalid *CfgSpec `json:"invalid"`
	Note    string   `json:"note,omitempty"`
	// Via: how the prior configured state was reached: "new" (NewMiddleware), "zero-reconfigure",
	// "reconfigure-from-other" (NewMiddleware(Other) then Reconfigure), "reconfigure-twice"
	Via   string   `json:"via,omitempty"`
	Other *CfgSpec `json:"other,omitempty"`
}

func c08Run(r *Run, l *Local, cs c08Case) {
	l.cur = func() any { return cs }
	l.evals++
	var m *cors.Middleware
	if cs.Prior == nil {
		m = new(cors.Middleware)
		if cs.Debug { // reach passthrough through Reconfigure(nil) instead of the zero value
			mm, err := cors.NewMiddleware(prodSample().Config())
			if err != nil {
				return
			}
			mm.SetDebug(true)
			mm.Reconfigure(nil)
			m = mm
		}
	} else {
		var err error
		pc := cs.Prior.Config()
		switch cs.Via {
		case "zero-reconfigure":
			m = new(cors.Middleware)
			err = m.Reconfigure(&pc)
		case "reconfigure-from-other", "reconfigure-twice":
			oc := cs.Other.Config()
			m, err = cors.NewMiddleware(oc)
			if err == nil && cs.Via == "reconfigure-twice" {
				pc2 := cs.Prior.Config()
				err = m.Reconfigure(&pc2)
				if err == nil {
					oc2 := cs.Other.Config()
					err = m.Reconfigure(&oc2)
				}
			}
			if err == nil {
				err = m.Reconfigure(&pc)
			}
		default:
			m, err = cors.NewMiddleware(pc)
		}
		if err != nil {
			return // C05's business
		}
		m.SetDebug(cs.Debug)
	}
	bad := cs.Invalid.Config()
	var suite []Req
	if cs.Prior != nil {
		suite = suiteFor(cs.Prior.Sem())
	}
	for _, q := range suiteFor(cs.Invalid.Sem()) {
		suite = append(suite, q)
	}
	before := runSuiteAsIs(m, suite)
	cfgBefore := m.Config()
	err := m.Reconfigure(&bad)
	fail := func(key, msg string) {
		p := "<passthrough>"
		if cs.Prior != nil {
			pc := cs.Prior.Config()
			p = cfgString(&pc)
		}
		r.Violate(key, "before-after", fmt.Sprintf("%s | prior %s debug=%v | invalid %s (violations %v)", msg, p, cs.Debug, cfgString(&bad), keysOf(cs.Invalid.violations())), cs)
	}
	if err == nil {
		fail("invalid-accepted", "Reconfigure accepted an invalid configuration")
		return
	}
	after := runSuiteAsIs(m, suite)
	if d := firstDiff(before, after); d >= 0 {
		fail("response-changed", fmt.Sprintf("after the rejected Reconfigure the answer to %s changed: %s, before: %s", reqString(suite[d]), after[d], before[d]))
	}
	cfgAfter := m.Config()
	if !configEqual(cfgBefore, cfgAfter) {
		fail("config-changed", fmt.Sprintf("Config() changed from %s to %s", cfgString(cfgBefore), cfgString(cfgAfter)))
	}
	if cs.Prior == nil && cfgAfter != nil {
		fail("config-changed", "passthrough middleware reports a configuration after a rejected Reconfigure")
	}
	// nothing is left behind: a later successful Reconfigure gives exactly what a fresh middleware gives
	if cs.Prior == nil {
		later := secureLaterCfg
		if err := m.Reconfigure(&later); err != nil {
			fail("later-reconfigure-error", fmt.Sprintf("a valid Reconfigure after the rejected one fails: %v", err))
		} else if fresh, ferr := cors.NewMiddleware(secureLaterCfg); ferr == nil {
			if d := firstDiff(runSuiteAsIs(fresh, suite), runSuiteAsIs(m, suite)); d >= 0 {
				fail("rejected-call-left-something-behind", fmt.Sprintf("after the rejected Reconfigure and a later valid one the answer to %s differs from a fresh middleware's", reqString(suite[d])))
			}
		}
	}
	// debug mode survives later successful operations as it was (a hidden change would surface here)
	if cs.Prior != nil {
		if err := m.Reconfigure(cfgAfter); err != nil {
			fail("roundtrip-error", fmt.Sprintf("m.Reconfigure(m.Config()) fails after the rejected Reconfigure: %v", err))
		} else if d := firstDiff(before, runSuiteAsIs(m, suite)); d >= 0 {
			fail("response-changed-later", fmt.Sprintf("after the rejected Reconfigure and a no-op round trip the answer to %s changed", reqString(suite[d])))
		}
	}
}

func TestVerif_C08(t *testing.T) {
	r := newRun(t, "C08")
	r.Rule("prior states: passthrough (zero value; Reconfigure(nil) after a configuration in debug mode) and accepted configurations (C02 product slice + C06 generator) reached by NewMiddleware, by Reconfigure on a zero value, or by one or three Reconfigure calls from another configuration, x debug off/on " +
		"x invalid configurations from the C05 generator with 1..12 injected violation kinds, including ones invalid only in the first validated field (status), only in the last (ResponseHeaders), and ones whose valid fields differ from the current state in every aspect. " +
		"Observed before and after: answers to the union of both configurations' request suites, Config(), and answers again after a no-op round trip. evaluation = one (state, invalid config) pair; non-trivial = pair with a configured prior state, distinct by hash")
	r.Assume("invalid configurations are invalid by construction (S4)")

	var rc c08Case
	if r.LoadReplay(nil, &rc) {
		l := r.newLocal(0)
		c08Run(r, l, rc)
		r.merge(l)
		r.Finish(0)
		return
	}
	prod, _ := c02Product()
	nb := pick(r, 64, 1024)
	per := pick(r, 120, 400)
	r.Parallel(nb, func(l *Local) {
		rng := l.Rng
		for i := 0; i < per; i++ {
			var prior *CfgSpec
			switch rng.IntN(8) {
			case 0:
				prior = nil
			case 1, 2, 3:
				prior = prod[rng.IntN(len(prod))]
			default:
				prior = randRichValidCfg(rng)
			}
			var inv *CfgSpec
			note := ""
			switch rng.IntN(6) {
			case 0: // invalid only in the first validated field
				inv = randRichValidCfg(rng)
				inv.Status = choose(rng, invalidStatus)
				note = "only-status"
			case 1: // invalid only in the last validated field
				inv = randRichValidCfg(rng)
				insertAt(rng, &inv.RespHdrs, choose(rng, append(append([]HAtom{}, forbiddenRespHdrAtoms...), invalidHdrAtoms...)))
				note = "only-response-headers"
			case 2:
				inv = randRichValidCfg(rng)
				inv.MaxAge = choose(rng, invalidMaxAges)
				note = "only-max-age"
			default:
				var names []string
				inv, names = randInvalidCfg(rng, 1+rng.IntN(12))
				note = fmt.Sprint(names)
			}
			if len(inv.violations()) == 0 {
				continue
			}
			cs := c08Case{Prior: prior, Debug: rng.IntN(2) == 0, Invalid: inv, Note: note}
			if prior != nil {
				cs.Via = choose(rng, []string{"new", "zero-reconfigure", "reconfigure-from-other", "reconfigure-twice"})
				if cs.Via == "reconfigure-from-other" || cs.Via == "reconfigure-twice" {
					cs.Other = randRichValidCfg(rng)
				}
				l.counters["prior_via_"+cs.Via]++
			}
			c08Run(r, l, cs)
			if prior != nil {
				l.NontrivialKey(specKey(prior), specKey(inv), fmt.Sprint(cs.Debug))
			}
			l.counters["invalid_"+firstWord(note)]++
			if l.Batch == 0 && i < 3 {
				l.Sample("pair", cs)
			}
		}
	})
	r.Finish(500)
}
