//go:build verif

package verifharness_test

import (
	"crypto/tls"
	"github.com/jub0bs/cors"
	"io"
	"net/http"
	"net/url"
	"sort"
	"strings"
	"sync"
	"sync/atomic"
)

// S7 - response canonical form and minimal writers.

// header names (canonical)
const (
	hOrigin = "Origin"
	hACRPN  = "Access-Control-Request-Private-Network"
	hACRM   = "Access-Control-Request-Method"
	hACRH   = "Access-Control-Request-Headers"
	hACAO   = "Access-Control-Allow-Origin"
	hACAC   = "Access-Control-Allow-Credentials"
	hACAPN  = "Access-Control-Allow-Private-Network"
	hACAM   = "Access-Control-Allow-Methods"
	hACAH   = "Access-Control-Allow-Headers"
	hACMA   = "Access-Control-Max-Age"
	hACEH   = "Access-Control-Expose-Headers"
	hVary   = "Vary"
)

const varyPreflight = hACRH + ", " + hACRM + ", " + hACRPN + ", " + hOrigin

// rw is a minimal http.ResponseWriter (deliberately not httptest.ResponseRecorder:
// no snapshotting, so aliasing and allocation behaviour are not masked).
type rw struct {
	h           http.Header
	status      int // first explicit WriteHeader, 0 if none
	wroteHeader int // number of WriteHeader calls
	body        []byte
	writes      int
	snap        http.Header // headers as of the first WriteHeader/Write (what a server would send)
	// buffered: the writer commits its header map when the exchange is over, with the first status it was given - what
	// http.TimeoutHandler's writer and other buffering outer layers do. Honoured only for exchanges that the wrapped handler
	// never saw, so that what is observed is the middleware's doing alone
	// (lesson of seeded change C16-q: WriteHeader(403) without return - the headers of the success path land in the map afterwards)
	buffered bool
	inner    http.Handler // the wrapped handler to run for THIS exchange (see wrappedOnce)
}

func (w *rw) innerHandler() http.Handler { return w.inner }

func newRW() *rw { return &rw{h: http.Header{}} }

func (w *rw) Header() http.Header { return w.h }
func (w *rw) WriteHeader(s int) {
	w.wroteHeader++
	if w.status == 0 {
		w.status = s
		w.snap = cloneHeader(w.h)
	}
}
func (w *rw) Write(b []byte) (int, error) {
	if w.status == 0 {
		w.status = 200
		w.snap = cloneHeader(w.h)
	}
	w.writes++
	w.body = append(w.body, b...)
	return len(b), nil
}

func cloneHeader(h http.Header) http.Header {
	out := make(http.Header, len(h))
	for k, v := range h {
		out[k] = append([]string(nil), v...)
	}
	return out
}

// Obs is the canonical observation of one exchange.
type Obs struct {
	Status  int                 `json:"status"` // effective status (200 when the handler never wrote one)
	Headers map[string][]string `json:"headers"`
	Body    string              `json:"body"`
	Calls   int                 `json:"handler_calls"`
}

func (w *rw) obs(calls int) Obs {
	st := w.status
	hdr := w.snap
	if st == 0 {
		st = 200
		hdr = w.h
	} else if w.buffered && calls == 0 {
		hdr = w.h
	}
	// keys with zero values are not transmitted
	out := make(map[string][]string, len(hdr))
	for k, v := range hdr {
		if len(v) == 0 {
			continue
		}
		out[k] = append([]string(nil), v...)
	}
	return Obs{Status: st, Headers: out, Body: string(w.body), Calls: calls}
}

func (o Obs) String() string {
	keys := make([]string, 0, len(o.Headers))
	for k := range o.Headers {
		keys = append(keys, k)
	}
	sort.Strings(keys)
	var sb strings.Builder
	sb.WriteString("status=")
	sb.WriteString(itoa(o.Status))
	sb.WriteString(" calls=")
	sb.WriteString(itoa(o.Calls))
	for _, k := range keys {
		sb.WriteString(" | ")
		sb.WriteString(k)
		sb.WriteString(": ")
		for i, v := range o.Headers[k] {
			if i > 0 {
				sb.WriteString(" ## ")
			}
			if len(v) > 200 {
				sb.WriteString(v[:200])
				sb.WriteString("...")
			} else {
				sb.WriteString(v)
			}
		}
	}
	if o.Body != "" {
		sb.WriteString(" | body=")
		sb.WriteString(o.Body)
	}
	return sb.String()
}

func itoa(i int) string {
	if i == 0 {
		return "0"
	}
	neg := i < 0
	if neg {
		i = -i
	}
	var b [20]byte
	p := len(b)
	for i > 0 {
		p--
		b[p] = byte('0' + i%10)
		i /= 10
	}
	if neg {
		p--
		b[p] = '-'
	}
	return string(b[p:])
}

func (o Obs) Equal(p Obs) bool {
	if o.Status != p.Status || o.Body != p.Body || o.Calls != p.Calls || len(o.Headers) != len(p.Headers) {
		return false
	}
	for k, v := range o.Headers {
		w, ok := p.Headers[k]
		if !ok || len(v) != len(w) {
			return false
		}
		for i := range v {
			if v[i] != w[i] {
				return false
			}
		}
	}
	return true
}

func (o Obs) get(k string) []string { return o.Headers[k] }
func (o Obs) first(k string) (string, bool) {
	v := o.Headers[k]
	if len(v) == 0 {
		return "", false
	}
	return v[0], true
}
func (o Obs) ok2xx() bool { return o.Status >= 200 && o.Status <= 299 }

var fixedURL = &url.URL{Scheme: "https", Host: "api.example.test", Path: "/resource"}

// Req is a request as the harness describes it (JSON-serialisable for replays).
type Req struct {
	Method string              `json:"method"`
	Header map[string][]string `json:"header"`
}

func (q Req) clone() Req {
	return Req{Method: q.Method, Header: cloneHeader(q.Header)}
}

// httpReq builds the *http.Request. Everything about a request other than its method and header fields is IRRELEVANT to
// every property (a preflight is OPTIONS + Origin + Access-Control-Request-Method whatever its target, body, protocol
// version or Host), so those attributes vary with a hash of the request: protocol version, Host (incl. the host:port of
// the request's own Origin, with r.TLS set for an https origin), request target (`*` for OPTIONS), Content-Length and
// body (lesson of seeded changes C16-o, C10-o, C11-o, C18-o). Variant forces one combination (0 = by hash).
func (q Req) httpReq() *http.Request { return q.httpReqVariant(0) }

func (q Req) httpReqVariant(variant uint64) *http.Request {
	h := make(http.Header, len(q.Header))
	for k, v := range q.Header {
		if v == nil {
			h[k] = nil
		} else {
			h[k] = append(make([]string, 0, len(v)), v...)
		}
	}
	r := &http.Request{Method: q.Method, URL: fixedURL, Proto: "HTTP/1.1", ProtoMajor: 1, ProtoMinor: 1, Header: h, Host: fixedURL.Host, RequestURI: "/resource"}
	x := variant
	if x == 0 {
		var sb strings.Builder
		sb.WriteString(q.Method)
		for _, k := range []string{hOrigin, hACRM, hACRH, hACRPN} {
			for _, v := range q.Header[k] {
				if len(v) < 512 {
					sb.WriteString(v)
				}
				sb.WriteByte(0)
			}
		}
		x = hashString(sb.String())
	}
	switch x % 4 { // protocol version
	case 1:
		r.Proto, r.ProtoMajor, r.ProtoMinor = "HTTP/2.0", 2, 0
	case 2:
		r.Proto, r.ProtoMajor, r.ProtoMinor = "HTTP/1.0", 1, 0
	}
	switch x >> 2 % 4 { // Host (and TLS): unrelated, with a port, the request's own origin
	case 1:
		r.Host = "localhost:8080"
	case 2, 3:
		if o := q.Header[hOrigin]; len(o) > 0 {
			if i := strings.Index(o[0], "://"); i > 0 && len(o[0]) < 300 {
				r.Host = o[0][i+3:]
				if o[0][:i] == "https" {
					r.TLS = &tls.ConnectionState{}
				}
				r.URL = &url.URL{Scheme: o[0][:i], Host: r.Host, Path: "/resource"}
			}
		}
	}
	switch x >> 4 % 4 { // body
	case 1:
		r.ContentLength = 5
		r.Body = io.NopCloser(strings.NewReader("hello"))
	case 2:
		r.ContentLength = -1
		r.TransferEncoding = []string{"chunked"}
		r.Body = io.NopCloser(strings.NewReader("hello"))
	}
	if q.Method == "OPTIONS" && x>>6%4 == 1 { // asterisk-form request target
		r.RequestURI = "*"
		r.URL = &url.URL{Path: "*"}
	}
	return r
}

type countingHandler struct {
	calls  int
	status int
	body   string
	set    map[string]string
}

func (c *countingHandler) ServeHTTP(w http.ResponseWriter, r *http.Request) {
	c.calls++
	for k, v := range c.set {
		w.Header().Set(k, v)
	}
	if c.status != 0 {
		w.WriteHeader(c.status)
	}
	if c.body != "" {
		w.Write([]byte(c.body))
	}
}

// wrapper is anything with a Wrap method (a *cors.Middleware).
type wrapper interface {
	Wrap(http.Handler) http.Handler
}

// serve runs one request through mw wrapped around a constant inner handler
// (status 200 via implicit WriteHeader, body "ok") and returns the observation.
func serve(mw wrapper, q Req) Obs {
	inner := &countingHandler{body: "ok"}
	w := newRW()
	w.inner = inner
	w.buffered = reqHash(q)>>9&1 == 1
	wrappedOnce(mw).ServeHTTP(w, q.httpReq())
	o := w.obs(inner.calls)
	w.outerAdd()
	return o
}

// outerAdd is what a well-behaved outer layer or ResponseWriter decorator does all the time (a compression layer adding
// `Vary: Accept-Encoding`, a tracing layer adding a second value): it ADDS a field line to headers that are already
// there, on every path including the preflight one, never writing in place. The harness does it after the observation has
// been taken, so it cannot change what this exchange shows; with header values that share spare capacity with something
// else the appended value lands in that something else and shows in LATER observations
// (lesson of seeded change C03-i: singleton slices carved out of one array without a capacity bound).
func (w *rw) outerAdd() {
	for k, v := range w.h {
		if len(v) > 0 {
			w.h[k] = append(v, "verif-outer-layer-added")
		}
	}
}

// Realistic use wraps a handler ONCE and reconfigures the middleware later, so the harness does the same:
// the first exchange through a middleware wraps a dispatching handler (possibly while the middleware is still
// a passthrough one) and every later exchange goes through that same wrapped handler, whatever Reconfigure /
// SetDebug calls happened in between. The handler to run for an exchange travels in the harness's own
// ResponseWriter (the middleware must hand the very same writer to the wrapped handler - C11).
// (Lesson of seeded change C11-e: Wrap returning the bare handler while the middleware is passthrough.)
type innerCarrier interface{ innerHandler() http.Handler }

type dispatchHandler struct{}

var dispatchFallbackCalls atomic.Int64

func (dispatchHandler) ServeHTTP(w http.ResponseWriter, r *http.Request) {
	if c, ok := w.(innerCarrier); ok && c.innerHandler() != nil {
		c.innerHandler().ServeHTTP(w, r)
		return
	}
	// the writer is not the harness's own: a wrapped writer reached the handler (C11 reports that); keep going
	dispatchFallbackCalls.Add(1)
	w.Write([]byte("ok"))
}

var (
	wrapCache sync.Map // wrapper -> http.Handler
	wrapCount atomic.Int64
)

// decoyHandler is wrapped by the same middleware before and after the real handler and never used: a middleware wraps
// as many handlers as its owner likes; wrapping another one must not change what an earlier Wrap returned.
type decoyHandler struct{}

var decoyCalls atomic.Int64

func (decoyHandler) ServeHTTP(w http.ResponseWriter, r *http.Request) { decoyCalls.Add(1) }

// wrappedPair: a middleware usually wraps SEVERAL handlers (one per route). The harness wraps the dispatching handler twice
// and sends successive exchanges through the two wrapped handlers alternately; what one of them has seen must not matter to
// the other (lesson of seeded change C09-o: a "state changed" flag shared by all wrapped handlers, lowered by the first one
// that notices).
type wrappedPair struct {
	hs [2]http.Handler
	n  atomic.Uint64
}

func (p *wrappedPair) ServeHTTP(w http.ResponseWriter, r *http.Request) {
	p.hs[p.n.Add(1)%2].ServeHTTP(w, r)
}

// stackedPassthrough: a middleware that is never configured.
var stackedPassthrough = new(cors.Middleware)

func wrappedOnce(mw wrapper) http.Handler {
	if h, ok := wrapCache.Load(mw); ok {
		return h.(http.Handler)
	}
	n := wrapCount.Load()
	if n%2 == 0 {
		_ = mw.Wrap(decoyHandler{})
	}
	// every fifth middleware wraps a handler that another middleware - a passthrough one, which by definition changes
	// nothing - has wrapped already: middlewares get stacked (a global one around per-route ones)
	// (lesson of seeded change C11-q: Wrap handing back, untouched, a handler that ANY middleware had wrapped)
	var app http.Handler = dispatchHandler{}
	if n%5 == 1 {
		app = stackedPassthrough.Wrap(dispatchHandler{})
	}
	var h http.Handler
	if n%4 == 3 {
		h = mw.Wrap(app) // a quarter of the middlewares wrap a single handler
	} else {
		p := &wrappedPair{}
		p.hs[0] = mw.Wrap(app)
		p.hs[1] = mw.Wrap(app)
		h = p
	}
	if n%3 != 0 {
		_ = mw.Wrap(decoyHandler{})
	}
	if wrapCount.Add(1) > 1<<14 { // bounded: checks create millions of short-lived middlewares
		wrapCache.Clear()
		wrapCount.Store(0)
	}
	actual, _ := wrapCache.LoadOrStore(mw, h)
	return actual.(http.Handler)
}

func preflightReq(origin, acrm string, acrh []string, pna bool) Req {
	h := map[string][]string{hOrigin: {origin}, hACRM: {acrm}}
	if acrh != nil {
		h[hACRH] = acrh
	}
	if pna {
		h[hACRPN] = []string{"true"}
	}
	return Req{Method: "OPTIONS", Header: h}
}

func actualReq(method, origin string) Req {
	return Req{Method: method, Header: map[string][]string{hOrigin: {origin}}}
}
