//go:build verif

package verifharness_test

import (
	"fmt"
	"strconv"
	"strings"
	"testing"

	"github.com/jub0bs/cors"
)

type c03Case struct {
	Spec  *CfgSpec `json:"spec"`
	Debug bool     `json:"debug"`
	Req   Req      `json:"request"`
	// Toggled: the request was first served with debug mode ON and then, after SetDebug(false), again on the same
	// middleware; the second answer is the one judged (as a debug-off answer)
	Toggled bool `json:"toggled,omitempty"`
}

func isACAllowOrExpose(k string) bool {
	return strings.HasPrefix(k, "Access-Control-Allow-") || strings.HasPrefix(k, "Access-Control-Expose-") || k == hACMA
}

// c03Invariants is the statement of C03 as an online monitor over one exchange.
// It returns a list of (key, message) problems.
func c03Invariants(sem *Sem, debug bool, q Req, o Obs) [][2]string {
	var bad [][2]string
	add := func(k, m string) { bad = append(bad, [2]string{k, m}) }
	origin, hasOrigin := firstVal(q, hOrigin)
	preflight := isPreflightReq(q)
	allowAllAnon := sem.AllowAll && !sem.Cred
	originAllowed := hasOrigin && (sem.AllowAll || sem.originAllowedRaw(origin))

	acao := o.get(hACAO)
	if len(acao) > 1 {
		add("acao-multiple", fmt.Sprintf("%d Access-Control-Allow-Origin values: %q", len(acao), acao))
	}
	echoed := false
	for _, v := range acao {
		switch {
		case v == "*":
			if !allowAllAnon {
				add("acao-star", "Access-Control-Allow-Origin: * although the configuration is not a non-credentialed allow-all one")
			}
		case hasOrigin && v == origin:
			if !originAllowed {
				add("acao-echo-disallowed", fmt.Sprintf("Access-Control-Allow-Origin echoes %q, which no configured pattern denotes", truncate(origin, 120)))
			}
			echoed = true
		default:
			add("acao-not-origin", fmt.Sprintf("Access-Control-Allow-Origin %q is neither `*` nor the byte-exact first Origin value %q", truncate(v, 120), truncate(origin, 120)))
		}
	}
	if acac := o.get(hACAC); len(acac) > 0 {
		if len(acac) != 1 || acac[0] != "true" {
			add("acac-value", fmt.Sprintf("Access-Control-Allow-Credentials: %q", acac))
		}
		if !sem.Cred {
			add("acac-uncredentialed", "Access-Control-Allow-Credentials although credentialed access is not enabled")
		}
		if !echoed || !originAllowed {
			add("acac-without-echo", fmt.Sprintf("Access-Control-Allow-Credentials next to Access-Control-Allow-Origin %q (request Origin %q)", acao, truncate(origin, 120)))
		}
	}
	if !allowAllAnon && !originAllowed {
		for k, v := range o.Headers {
			if isACAllowOrExpose(k) && len(v) > 0 {
				add("headers-without-allowed-origin", fmt.Sprintf("%s: %q on a request without an allowed origin (Origin %q)", k, v, truncate(origin, 120)))
			}
		}
	}
	for _, k := range []string{hACAM, hACAH, hACAPN, hACMA} {
		if v := o.get(k); len(v) > 0 && !preflight {
			add("preflight-only-header", fmt.Sprintf("%s: %q on a non-preflight response", k, v))
		}
	}
	if v := o.get(hACEH); len(v) > 0 && preflight {
		add("aceh-on-preflight", fmt.Sprintf("Access-Control-Expose-Headers: %q on a preflight response", v))
	}
	// ACMA carries exactly the configured value
	wantACMA := ""
	switch {
	case sem.MaxAge == -1:
		wantACMA = "0"
	case sem.MaxAge > 0:
		wantACMA = strconv.Itoa(sem.MaxAge)
	}
	if v := o.get(hACMA); len(v) > 0 {
		if len(v) != 1 || v[0] != wantACMA || wantACMA == "" {
			add("acma-value", fmt.Sprintf("Access-Control-Max-Age: %q, configured %d", v, sem.MaxAge))
		}
	} else if preflight && !debug && o.ok2xx() && len(acao) > 0 && wantACMA != "" {
		add("acma-missing", fmt.Sprintf("successful preflight response lacks Access-Control-Max-Age (configured %d)", sem.MaxAge))
	}
	// ACEH carries exactly the configured names
	if v := o.get(hACEH); len(v) > 0 {
		got := map[string]bool{}
		for _, line := range v {
			for _, el := range strings.Split(line, ",") {
				el = asciiLower(strings.Trim(el, " \t"))
				if el != "" {
					got[el] = true
				}
			}
		}
		for n := range got {
			if n == "*" {
				if !sem.ExposeAll {
					add("aceh-value", fmt.Sprintf("Access-Control-Expose-Headers %q lists `*`, not configured", v))
				}
				continue
			}
			if !sem.Expose[n] && !sem.ExposeSafe[n] {
				add("aceh-value", fmt.Sprintf("Access-Control-Expose-Headers %q lists %q, not configured", v, n))
			}
		}
		if sem.ExposeAll {
			if !got["*"] {
				add("aceh-value", fmt.Sprintf("Access-Control-Expose-Headers %q lacks the configured `*`", v))
			}
		} else {
			for n := range sem.Expose {
				if !got[n] {
					add("aceh-value", fmt.Sprintf("Access-Control-Expose-Headers %q lacks the configured %q", v, n))
				}
			}
		}
		if !sem.ExposeAll && len(sem.Expose) == 0 {
			add("aceh-value", fmt.Sprintf("Access-Control-Expose-Headers %q although nothing is configured to be exposed", v))
		}
	} else if !preflight && len(acao) > 0 && (sem.ExposeAll || len(sem.Expose) > 0) {
		add("aceh-missing", "response granting access lacks the configured Access-Control-Expose-Headers")
	}
	if v := o.get(hACAPN); len(v) > 0 {
		acrpn, _ := firstVal(q, hACRPN)
		if len(v) != 1 || v[0] != "true" || sem.PNA == pnaOff || acrpn != "true" {
			add("acapn", fmt.Sprintf("Access-Control-Allow-Private-Network: %q (PNA mode %d, request ACRPN %q)", v, sem.PNA, acrpn))
		}
	}
	return bad
}

type c03Env struct {
	spec    *CfgSpec
	sem     *Sem
	mw      [2]*cors.Middleware
	mwT     *cors.Middleware // toggles between the debug modes (see c03RunCase)
	origins []string         // hostile Origin values derived from the configuration
	allowed []string
}

func newC03Env(c *CfgSpec) (*c03Env, error) {
	e := &c03Env{spec: c, sem: c.Sem()}
	for d := 0; d < 2; d++ {
		mw, err := newMiddlewareViaDbg(c.Config(), int(hashString(specKey(c))>>3&0xffff)+5*d+1, d == 1)
		if err != nil {
			return nil, err
		}
		e.mw[d] = mw
	}
	if mwT, err := cors.NewMiddleware(c.Config()); err == nil {
		e.mwT = mwT
	}
	inst := allowedInstances(e.sem.Pats)
	if len(inst) == 0 {
		inst = []OriginSpec{{Scheme: "https", Host: "example.com"}}
	}
	seen := map[string]bool{}
	for _, o := range inst {
		e.allowed = append(e.allowed, o.String())
		for _, v := range hostileOriginValues(o) {
			if !seen[v] {
				seen[v] = true
				e.origins = append(e.origins, v)
			}
		}
	}
	// the configuration echoed back: every configured pattern text as an Origin value (`https://*.example.com`,
	// `http://localhost:*`, `*`) - none of them is an origin (lesson of seeded change C03-md)
	for _, a := range c.Origins {
		if !seen[a.Raw] && strings.Contains(a.Raw, "*") {
			seen[a.Raw] = true
			e.origins = append(e.origins, a.Raw)
		}
	}
	for _, o := range c02OriginCandidates {
		if v := o.String(); !seen[v] {
			seen[v] = true
			e.origins = append(e.origins, v)
		}
	}
	if hashString(specKey(c))&1 == 0 {
		poisonRound(e.mw[0], e.allowed[0]) // hostile wrapped handler first (see poisonRound)
		poisonRound(e.mw[1], e.allowed[0])
	}
	// cross probes: scheme/host of one configured pattern with the port of another, and vice versa
	for _, p := range e.sem.Pats {
		for _, q := range e.sem.Pats {
			if p == q {
				continue
			}
			for _, pt := range []int{q.Port, p.Port} {
				if pt < 0 {
					pt = 8081
				}
				for _, sch := range []string{p.Scheme, q.Scheme} {
					h := p.Host
					if p.Subs {
						h = "a." + h
					}
					if v := (OriginSpec{Scheme: sch, Host: h, IP6: p.IP6, Port: pt}).String(); !seen[v] {
						seen[v] = true
						e.origins = append(e.origins, v)
					}
				}
			}
		}
	}
	return e, nil
}

func c03RunCase(r *Run, l *Local, e *c03Env, debug bool, q Req) {
	d := 0
	if debug {
		d = 1
	}
	l.cur = func() any { return c03Case{Spec: e.spec, Debug: debug, Req: trimReq(q)} }
	o := serve(e.mw[d], q)
	l.evals++
	if len(o.get(hACAO)) > 0 {
		l.n1++
	} else {
		l.n2++
	}
	for _, p := range c03Invariants(e.sem, debug, q, o) {
		cfg := e.spec.Config()
		r.Violate(p[0], "C03-invariants", fmt.Sprintf("%s | request %s | response %s | debug=%v | %s", p[1], reqString(q), o, debug, cfgString(&cfg)), c03Case{Spec: e.spec, Debug: debug, Req: trimReq(q)})
	}
	// the same request on ONE middleware in both modes: first with debug on (where a failing preflight is answered with
	// an ok status and partial headers), then with debug off - the second answer must satisfy the debug-off invariants and
	// equal the answer of the middleware that never was in debug mode (lesson of seeded change C03-kb: something remembered
	// from a debug-mode exchange and reused with debug off)
	if !debug && e.mwT != nil && hashString(reqString(q))%3 == 0 {
		e.mwT.SetDebug(true)
		serve(e.mwT, q)
		e.mwT.SetDebug(false)
		oT := serve(e.mwT, q)
		l.evals++
		l.counters["toggled_exchanges"]++
		cs := c03Case{Spec: e.spec, Debug: false, Req: trimReq(q), Toggled: true}
		for _, p := range c03Invariants(e.sem, false, q, oT) {
			cfg := e.spec.Config()
			r.Violate(p[0], "C03-invariants", fmt.Sprintf("%s | request %s (served with debug on, then again with debug off) | response %s | %s", p[1], reqString(q), oT, cfgString(&cfg)), cs)
		}
		if !oT.Equal(o) {
			cfg := e.spec.Config()
			r.Violate("debug-history-shows", "C03-invariants", fmt.Sprintf("with debug off the answer to %s depends on whether the same request was served in debug mode before: %s vs %s | %s", reqString(q), oT, o, cfgString(&cfg)), cs)
		}
	}
}

// trimReq shortens megabyte-sized values for replay files ("<1MiB a>" is expanded again on replay).
func trimReq(q Req) Req {
	out := Req{Method: q.Method, Header: map[string][]string{}}
	for k, v := range q.Header {
		nv := make([]string, len(v))
		for i, s := range v {
			nv[i] = strings.ReplaceAll(s, bigString, "<1MiB a>")
		}
		out.Header[k] = nv
	}
	return out
}

func expandReq(q Req) Req {
	out := Req{Method: q.Method, Header: map[string][]string{}}
	for k, v := range q.Header {
		nv := make([]string, len(v))
		for i, s := range v {
			nv[i] = strings.ReplaceAll(s, "<1MiB a>", bigString)
		}
		if v == nil {
			nv = nil
		}
		out.Header[k] = nv
	}
	return out
}

func reqString(q Req) string {
	var sb strings.Builder
	sb.WriteString(strconv.Quote(q.Method))
	for _, k := range []string{hOrigin, hACRM, hACRH, hACRPN} {
		if v, ok := q.Header[k]; ok {
			sb.WriteString(" " + k + "=")
			tv := make([]string, len(v))
			for i := range v {
				tv[i] = truncate(v[i], 100)
			}
			sb.WriteString(fmt.Sprintf("%q", tv))
		}
	}
	for k, v := range q.Header {
		switch k {
		case hOrigin, hACRM, hACRH, hACRPN:
		default:
			sb.WriteString(fmt.Sprintf(" %s=%q", k, v))
		}
	}
	return sb.String()
}

func TestVerif_C03(t *testing.T) {
	r := newRun(t, "C03")
	r.Rule("C02 configuration product x debug off/on x hostile requests: every method token incl. lower-case `options`; Origin/ACRM/ACRH/ACRPN absent, zero-valued, empty, multi-valued, 1 MiB, upper-case, userinfo, path/query/fragment, bracketed non-IP, unmatched bracket, leading-zero/6-digit/0/65536/default ports, NUL and non-ASCII bytes, `null`, trailing/leading/double dots, plus byte-level mutations of allowed origins. " +
		"Systematic part: every hostile Origin value x {GET, OPTIONS actual, preflight} per configuration; PRNG part: random combinations; origin-rich part: PRNG configurations with several schemes/ports per host, IP literals, subsuming and duplicate patterns, probed with every hostile value and with cross probes (scheme/host of one pattern with the port of another). evaluation = one exchange checked against all header invariants of the statement; " +
		"non-trivial = exchange whose Origin is allowed or shares >= 8 leading bytes with an allowed origin (distinct by hash of configuration+request+debug)")
	r.Assume("matchRaw (S1) decides which raw Origin values serialise an allowed origin; it mirrors one documented leniency (bracketed non-IP hosts)")

	var rc c03Case
	if r.LoadReplay(nil, &rc) {
		l := r.newLocal(0)
		e, err := newC03Env(rc.Spec)
		if err != nil {
			t.Fatalf("replay: %v", err)
		}
		c03RunCase(r, l, e, rc.Debug, expandReq(rc.Req))
		if rc.Toggled && hashString(reqString(expandReq(rc.Req)))%3 != 0 {
			t.Fatalf("replay: toggled case whose request is not in the toggled third")
		}
		r.merge(l)
		r.Finish(0)
		return
	}
	c06Integers(r) // every max-age and every status: Access-Control-Max-Age / status exactly as configured (see c06.go)
	prod, _ := c02Product()
	r.Set("configurations", len(prod))
	cfgStride := pick(r, 7, 1)
	if r.IsRace() {
		cfgStride = 23
	}
	nRand := pick(r, 150, 1500)
	r.Parallel(len(prod), func(l *Local) {
		if !r.visit(l.Batch, cfgStride) {
			return
		}
		c := prod[l.Batch]
		e, err := newC03Env(c)
		if err != nil {
			return // C05's business
		}
		rng := l.Rng
		key := specKey(c)
		nt := func(q Req, dbg bool) {
			if ov, ok := firstVal(q, hOrigin); ok && (e.sem.originAllowedRaw(ov) || sharesPrefix(ov, e.allowed, 8)) {
				l.NontrivialKey(key, reqString(q), strconv.FormatBool(dbg))
			}
		}
		for _, dbg := range []bool{false, true} {
			// systematic: each hostile origin as GET, as actual OPTIONS and as preflight (PUT, listed headers)
			for _, ov := range e.origins {
				for _, q := range []Req{
					buildReq("GET", []string{ov}, nil, nil, nil, nil),
					buildReq("OPTIONS", []string{ov}, nil, nil, nil, nil),
					buildReq("OPTIONS", []string{ov}, []string{"PUT"}, nil, nil, nil),
					buildReq("OPTIONS", []string{ov}, []string{"GET"}, []string{"x-listed-1"}, []string{"true"}, nil),
					buildReq("POST", []string{ov, e.allowed[0]}, nil, nil, nil, nil),
					buildReq("OPTIONS", []string{e.allowed[0], ov}, []string{"GET"}, nil, nil, nil),
				} {
					c03RunCase(r, l, e, dbg, q)
					nt(q, dbg)
				}
			}
			// PRNG: random shapes and byte-level mutations
			for i := 0; i < nRand; i++ {
				pool := e.origins
				q := randHostileReq(rng, e.sem, pool)
				if rng.IntN(3) == 0 {
					q.Header[hOrigin] = []string{mutateBytes(rng, choose(rng, e.allowed))}
				}
				c03RunCase(r, l, e, dbg, q)
				nt(q, dbg)
				if l.Batch%5000 == 7 && i < 2 {
					l.Sample("random", c03Case{Spec: c, Debug: dbg, Req: trimReq(q)})
				}
			}
		}
	})
	// ---- origin-rich configurations (several schemes/ports per host, IP literals, subsuming patterns, duplicates)
	nbRich := pick(r, 64, 1024)
	perRich := pick(r, 12, 60)
	if r.IsRace() {
		nbRich = 16
	}
	r.Parallel(nbRich, func(l *Local) {
		rng := l.Rng
		for i := 0; i < perRich; i++ {
			c := randRichValidCfg(rng)
			if rng.IntN(2) == 0 {
				// one host under several schemes and ports, in PRNG order
				host := choose(rng, []string{"localhost", "127.0.0.1"})
				for k := 2 + rng.IntN(3); k > 0; k-- {
					sch := choose(rng, []string{"http", "connector", "ht", "httpss"})
					if host == "localhost" && rng.IntN(2) == 0 {
						sch = "https"
					}
					insertAt(rng, &c.Origins, oPat(PatSpec{Scheme: sch, Host: host, Port: choose(rng, []int{portNone, 3000, 8443, portAny})}, false, false))
				}
				dropStarO(&c.Origins)
			}
			e, err := newC03Env(c)
			if err != nil {
				continue
			}
			key := specKey(c)
			for _, dbg := range []bool{false, true} {
				for _, ov := range e.origins {
					if len(ov) > 4096 {
						continue
					}
					for _, q := range []Req{buildReq("GET", []string{ov}, nil, nil, nil, nil), buildReq("OPTIONS", []string{ov}, []string{"PUT"}, nil, []string{"true"}, nil)} {
						c03RunCase(r, l, e, dbg, q)
						if e.sem.originAllowedRaw(ov) || sharesPrefix(ov, e.allowed, 8) {
							l.NontrivialKey(key, reqString(q), strconv.FormatBool(dbg))
						}
					}
				}
			}
			if l.Batch == 1 && i == 0 {
				l.Sample("rich-config", c03Case{Spec: c, Req: buildReq("GET", []string{e.origins[len(e.origins)-1]}, nil, nil, nil, nil)})
			}
		}
	})
	r.mu.Lock()
	r.counters["responses_with_acao"], r.counters["responses_without_acao"] = r.counters["n1"], r.counters["n2"]
	delete(r.counters, "n1")
	delete(r.counters, "n2")
	r.mu.Unlock()
	r.Finish(pick(r, int64(5000), int64(5000)))
}
