//go:build verif

package verifharness_test

import (
	"math/rand/v2"
)

// Configuration generators shared by the checks. All randomness comes from the
// batch PRNG, so the case list is a function of (tier, VERIF_SEED).

func pickSome[T any](rng *rand.Rand, pool []T, minN, maxN int) []T {
	n := minN
	if maxN > minN {
		n += rng.IntN(maxN - minN + 1)
	}
	out := make([]T, 0, n)
	for i := 0; i < n; i++ {
		out = append(out, choose(rng, pool))
	}
	return out
}

// randValidCfg returns a configuration that uses only documented-permitted
// settings (violation-free by construction), exercising the cross-field
// permissions (tolerate flags, `*` next to discrete values, safelisted names).
func randValidCfg(rng *rand.Rand) *CfgSpec {
	c := &CfgSpec{}
	c.Cred = rng.IntN(2) == 0
	c.PNA = choose(rng, []int{pnaOff, pnaOff, pnaOn, pnaNoCors})
	c.TolInsecure = rng.IntN(3) == 0
	c.TolPSL = rng.IntN(3) == 0
	c.NonNilEmpty = rng.IntN(3) == 0
	restricted := c.Cred || c.PNA != pnaOff
	var pool []OAtom
	pool = append(pool, secureOriginAtoms...)
	if !restricted || c.TolInsecure {
		pool = append(pool, insecureOriginAtoms...)
	}
	if c.TolPSL {
		for _, a := range pslOriginAtoms {
			if !a.Insecure || !restricted || c.TolInsecure {
				pool = append(pool, a)
			}
		}
	}
	c.Origins = pickSome(rng, pool, 1, 5)
	if rng.IntN(3) == 0 { // a pattern next to one that covers it / is covered by it
		i := rng.IntN(len(c.Origins))
		if rel := relatedOriginAtoms(c.Origins[i], pool); len(rel) > 0 {
			f := choose(rng, rel)
			if rng.IntN(2) == 0 {
				c.Origins = append(c.Origins[:i+1], append([]OAtom{f}, c.Origins[i+1:]...)...)
			} else {
				c.Origins = append(c.Origins[:i], append([]OAtom{f}, c.Origins[i:]...)...)
			}
		}
	}
	if !restricted && rng.IntN(4) == 0 {
		c.Origins[rng.IntN(len(c.Origins))] = oStarAtom
	}
	// methods
	switch rng.IntN(5) {
	case 0:
	case 1:
		c.Methods = []MAtom{mStarAtom}
	case 2:
		c.Methods = pickSome(rng, append(append([]MAtom{}, validMethodAtoms...), safelistedMethodAtoms...), 1, 4)
	case 3:
		c.Methods = pickSome(rng, validMethodAtoms, 1, 3)
		c.Methods = append(c.Methods, mStarAtom)
		c.Methods = shuffled(rng, c.Methods)
	case 4:
		c.Methods = pickSome(rng, safelistedMethodAtoms, 1, 2)
	}
	// request headers
	switch rng.IntN(7) {
	case 0:
	case 1:
		c.ReqHdrs = []HAtom{hStarAtom}
	case 2:
		c.ReqHdrs = shuffled(rng, []HAtom{hStarAtom, choose(rng, authReqHdrAtoms)})
	case 3:
		c.ReqHdrs = pickSome(rng, validReqHdrAtoms, 1, 4)
	case 4:
		c.ReqHdrs = append(pickSome(rng, validReqHdrAtoms, 1, 3), choose(rng, authReqHdrAtoms))
		c.ReqHdrs = shuffled(rng, c.ReqHdrs)
	case 5:
		c.ReqHdrs = append(pickSome(rng, validReqHdrAtoms, 1, 3), hStarAtom)
		if rng.IntN(2) == 0 {
			c.ReqHdrs = append(c.ReqHdrs, choose(rng, authReqHdrAtoms))
		}
		c.ReqHdrs = shuffled(rng, c.ReqHdrs)
	case 6:
		c.ReqHdrs = []HAtom{choose(rng, authReqHdrAtoms)}
	}
	c.MaxAge = choose(rng, validMaxAges)
	// response headers
	switch rng.IntN(6) {
	case 0:
	case 1:
		if !c.Cred {
			c.RespHdrs = []HAtom{hStarAtom}
		}
	case 2:
		c.RespHdrs = pickSome(rng, validRespHdrAtoms, 1, 3)
	case 3:
		c.RespHdrs = pickSome(rng, safelistedRespHdrAtoms, 1, 2)
	case 4:
		c.RespHdrs = shuffled(rng, append(pickSome(rng, validRespHdrAtoms, 1, 3), choose(rng, safelistedRespHdrAtoms)))
	case 5:
		c.RespHdrs = pickSome(rng, validRespHdrAtoms, 1, 2)
		if !c.Cred {
			c.RespHdrs = shuffled(rng, append(c.RespHdrs, hStarAtom))
		}
	}
	c.Status = choose(rng, validStatuses)
	return c
}

// violation injectors: each adds exactly one kind of documented violation to c
// (possibly several error records, as computed by c.violations()).
var cfgInjectors = []struct {
	name string
	f    func(rng *rand.Rand, c *CfgSpec)
}{
	{"origin-invalid", func(rng *rand.Rand, c *CfgSpec) { insertAt(rng, &c.Origins, choose(rng, invalidOriginAtoms)) }},
	{"origin-missing", func(rng *rand.Rand, c *CfgSpec) { c.Origins = nil; c.NonNilEmpty = rng.IntN(2) == 0 }},
	{"origin-star-vs-cred", func(rng *rand.Rand, c *CfgSpec) {
		c.Cred = true
		insertAt(rng, &c.Origins, oStarAtom)
		dropStar(&c.RespHdrs)
	}},
	{"origin-star-vs-pna", func(rng *rand.Rand, c *CfgSpec) {
		if c.PNA == pnaOff {
			c.PNA = choose(rng, []int{pnaOn, pnaNoCors})
		}
		insertAt(rng, &c.Origins, oStarAtom)
	}},
	{"origin-insecure", func(rng *rand.Rand, c *CfgSpec) {
		c.TolInsecure = false
		if !c.Cred && c.PNA == pnaOff {
			if rng.IntN(2) == 0 {
				c.Cred = true
				dropStar(&c.RespHdrs)
				dropStarO(&c.Origins)
			} else {
				c.PNA = choose(rng, []int{pnaOn, pnaNoCors})
				dropStarO(&c.Origins)
			}
		}
		insertWithRelative(rng, c, choose(rng, insecureOriginAtoms))
		// insecure atoms that were legal under the tolerate flag now count as well: recomputed by violations()
	}},
	{"origin-psl", func(rng *rand.Rand, c *CfgSpec) {
		c.TolPSL = false
		a := choose(rng, pslOriginAtoms)
		if a.Insecure && (c.Cred || c.PNA != pnaOff) && !c.TolInsecure {
			a = pslOriginAtoms[0]
		}
		insertWithRelative(rng, c, a)
	}},
	{"pna-both", func(rng *rand.Rand, c *CfgSpec) { c.PNA = pnaBoth; dropStarO(&c.Origins) }},
	{"method-invalid", func(rng *rand.Rand, c *CfgSpec) { insertAt(rng, &c.Methods, choose(rng, invalidMethodAtoms)) }},
	{"method-forbidden", func(rng *rand.Rand, c *CfgSpec) { insertAt(rng, &c.Methods, choose(rng, forbiddenMethodAtoms)) }},
	{"reqhdr-invalid", func(rng *rand.Rand, c *CfgSpec) { insertAt(rng, &c.ReqHdrs, choose(rng, invalidHdrAtoms)) }},
	{"reqhdr-forbidden", func(rng *rand.Rand, c *CfgSpec) { insertAt(rng, &c.ReqHdrs, choose(rng, forbiddenReqHdrAtoms)) }},
	{"reqhdr-prohibited", func(rng *rand.Rand, c *CfgSpec) { insertAt(rng, &c.ReqHdrs, choose(rng, prohibitedReqHdrAtoms)) }},
	{"maxage", func(rng *rand.Rand, c *CfgSpec) { c.MaxAge = choose(rng, invalidMaxAges) }},
	{"resphdr-invalid", func(rng *rand.Rand, c *CfgSpec) { insertAt(rng, &c.RespHdrs, choose(rng, invalidHdrAtoms)) }},
	{"resphdr-forbidden", func(rng *rand.Rand, c *CfgSpec) { insertAt(rng, &c.RespHdrs, choose(rng, forbiddenRespHdrAtoms)) }},
	{"resphdr-prohibited", func(rng *rand.Rand, c *CfgSpec) { insertAt(rng, &c.RespHdrs, choose(rng, prohibitedRespHdrAtoms)) }},
	{"resphdr-star-vs-cred", func(rng *rand.Rand, c *CfgSpec) {
		c.Cred = true
		dropStarO(&c.Origins)
		insertAt(rng, &c.RespHdrs, hStarAtom)
	}},
	{"status", func(rng *rand.Rand, c *CfgSpec) { c.Status = choose(rng, invalidStatus) }},
}

// insertWithRelative inserts the (violating) atom a into c.Origins and, half of the time, also a related atom that is
// itself free of violations under c's switches, before or after it.
func insertWithRelative(rng *rand.Rand, c *CfgSpec, a OAtom) {
	insertAt(rng, &c.Origins, a)
	if rng.IntN(2) == 0 {
		return
	}
	restricted := c.Cred || c.PNA != pnaOff
	var ok []OAtom
	for _, f := range relatedOriginAtoms(a, allValidKindOriginAtoms()) {
		if f.Insecure && restricted && !c.TolInsecure || f.PSL && !c.TolPSL {
			continue
		}
		ok = append(ok, f)
	}
	if len(ok) == 0 {
		return
	}
	f := choose(rng, ok)
	for i := range c.Origins {
		if c.Origins[i].Raw == a.Raw {
			if rng.IntN(3) > 0 { // mostly before: what an implementation remembers comes from earlier patterns
				c.Origins = append(c.Origins[:i], append([]OAtom{f}, c.Origins[i:]...)...)
			} else {
				c.Origins = append(c.Origins[:i+1], append([]OAtom{f}, c.Origins[i+1:]...)...)
			}
			return
		}
	}
}

func insertAt[T any](rng *rand.Rand, s *[]T, v T) {
	i := rng.IntN(len(*s) + 1)
	*s = append(*s, v)
	copy((*s)[i+1:], (*s)[i:])
	(*s)[i] = v
}

func dropStar(s *[]HAtom) {
	out := (*s)[:0:0]
	for _, a := range *s {
		if a.Kind != hStar {
			out = append(out, a)
		}
	}
	*s = out
}

// dropStarO replaces `*` origins by a secure pattern (so that switching on
// credentials/PNA for another purpose does not add an unintended violation;
// the oracle recomputes the expectation from the final atoms in any case).
func dropStarO(s *[]OAtom) {
	for i, a := range *s {
		if a.Kind == oStar {
			(*s)[i] = secureOriginAtoms[0]
		}
	}
}

// randInvalidCfg returns a configuration with about n injected violation kinds
// (at least one violation is guaranteed by construction: the oracle decides how many).
func randInvalidCfg(rng *rand.Rand, n int) (*CfgSpec, []string) {
	for {
		c := randValidCfg(rng)
		var names []string
		for i := 0; i < n; i++ {
			inj := choose(rng, cfgInjectors)
			inj.f(rng, c)
			names = append(names, inj.name)
		}
		// occasionally long lists: repeated valid and invalid atoms far beyond a handful of entries
		if rng.IntN(12) == 0 {
			for k := 20 + rng.IntN(40); k > 0; k-- {
				switch rng.IntN(4) {
				case 0:
					insertAt(rng, &c.Origins, choose(rng, append(append([]OAtom{}, secureOriginAtoms...), invalidOriginAtoms...)))
				case 1:
					insertAt(rng, &c.Methods, choose(rng, append(append([]MAtom{}, validMethodAtoms...), forbiddenMethodAtoms...)))
				case 2:
					insertAt(rng, &c.ReqHdrs, choose(rng, append(append([]HAtom{}, validReqHdrAtoms...), forbiddenReqHdrAtoms...)))
				case 3:
					insertAt(rng, &c.RespHdrs, choose(rng, append(append([]HAtom{}, validRespHdrAtoms...), prohibitedRespHdrAtoms...)))
				}
			}
		}
		if len(c.violations()) > 0 {
			return c, names
		}
	}
}
