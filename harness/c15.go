//go:build verif

package verifharness_test

import (
	"fmt"
	"math/rand/v2"
	"sort"
	"testing"

	"github.com/jub0bs/cors"
)

// C15 - config lists are sets. Metamorphic monitor over permuted / duplicated / case-varied twins.

type c15Case struct {
	Spec *CfgSpec `json:"spec"`
	Twin *CfgSpec `json:"twin"`
	How  string   `json:"how"`
}

func permutations(n int) [][]int {
	if n == 0 {
		return [][]int{{}}
	}
	var out [][]int
	var rec func(cur []int, used []bool)
	rec = func(cur []int, used []bool) {
		if len(cur) == n {
			out = append(out, append([]int(nil), cur...))
			return
		}
		for i := 0; i < n; i++ {
			if !used[i] {
				used[i] = true
				rec(append(cur, i), used)
				used[i] = false
			}
		}
	}
	rec(nil, make([]bool, n))
	return out
}

func permuteAtoms[T any](xs []T, p []int) []T {
	out := make([]T, len(xs))
	for i, j := range p {
		out[i] = xs[j]
	}
	return out
}

func flipCase(rng *rand.Rand, s string) string {
	b := []byte(s)
	for i, c := range b {
		if rng.IntN(2) == 0 {
			continue
		}
		if c >= 'a' && c <= 'z' {
			b[i] = c - 32
		} else if c >= 'A' && c <= 'Z' {
			b[i] = c + 32
		}
	}
	return string(b)
}

// oneUpper returns the name in lower case with exactly ONE letter (the k-th, cyclically) in upper case; "" if it has no letter.
func oneUpper(name string, k int) string {
	b := []byte(asciiLower(name))
	var idx []int
	for i, c := range b {
		if c >= 'a' && c <= 'z' {
			idx = append(idx, i)
		}
	}
	if len(idx) == 0 {
		return ""
	}
	i := idx[k%len(idx)]
	b[i] -= 32
	return string(b)
}

// twinsOf returns configurations that differ from c only in ways C15 declares irrelevant.
func twinsOf(rng *rand.Rand, c *CfgSpec, exhaustivePerms bool) (twins []*CfgSpec, hows []string) {
	add := func(t *CfgSpec, how string) { twins = append(twins, t); hows = append(hows, how) }
	clone := func() *CfgSpec {
		d := *c
		d.Origins = append([]OAtom(nil), c.Origins...)
		d.Methods = append([]MAtom(nil), c.Methods...)
		d.ReqHdrs = append([]HAtom(nil), c.ReqHdrs...)
		d.RespHdrs = append([]HAtom(nil), c.RespHdrs...)
		return &d
	}
	// permutations of each list: all for length <= 4, PRNG beyond
	permsFor := func(n int) [][]int {
		if n <= 1 {
			return nil
		}
		if n <= 4 && exhaustivePerms {
			return permutations(n)[1:]
		}
		var ps [][]int
		for k := 0; k < 4; k++ {
			ps = append(ps, rng.Perm(n))
		}
		return ps
	}
	for _, p := range permsFor(len(c.Origins)) {
		t := clone()
		t.Origins = permuteAtoms(c.Origins, p)
		add(t, fmt.Sprintf("origins permuted %v", p))
	}
	for _, p := range permsFor(len(c.Methods)) {
		t := clone()
		t.Methods = permuteAtoms(c.Methods, p)
		add(t, fmt.Sprintf("methods permuted %v", p))
	}
	for _, p := range permsFor(len(c.ReqHdrs)) {
		t := clone()
		t.ReqHdrs = permuteAtoms(c.ReqHdrs, p)
		add(t, fmt.Sprintf("request headers permuted %v", p))
	}
	for _, p := range permsFor(len(c.RespHdrs)) {
		t := clone()
		t.RespHdrs = permuteAtoms(c.RespHdrs, p)
		add(t, fmt.Sprintf("response headers permuted %v", p))
	}
	// duplications
	if len(c.Origins) > 0 {
		t := clone()
		insertAt(rng, &t.Origins, c.Origins[rng.IntN(len(c.Origins))])
		insertAt(rng, &t.Origins, c.Origins[rng.IntN(len(c.Origins))])
		add(t, "origins duplicated")
	}
	if len(c.Methods) > 0 {
		t := clone()
		insertAt(rng, &t.Methods, c.Methods[rng.IntN(len(c.Methods))])
		add(t, "method duplicated")
	}
	if len(c.ReqHdrs) > 0 {
		t := clone()
		insertAt(rng, &t.ReqHdrs, c.ReqHdrs[rng.IntN(len(c.ReqHdrs))])
		insertAt(rng, &t.ReqHdrs, c.ReqHdrs[rng.IntN(len(c.ReqHdrs))])
		add(t, "request header duplicated")
	}
	if len(c.RespHdrs) > 0 {
		t := clone()
		insertAt(rng, &t.RespHdrs, c.RespHdrs[rng.IntN(len(c.RespHdrs))])
		add(t, "response header duplicated")
	}
	// letter case of header names
	if len(c.ReqHdrs) > 0 {
		t := clone()
		for i, a := range t.ReqHdrs {
			if a.Kind != hStar {
				t.ReqHdrs[i].Raw = flipCase(rng, a.Raw)
			}
		}
		add(t, "request-header case varied")
	}
	if len(c.RespHdrs) > 0 {
		t := clone()
		for i, a := range t.RespHdrs {
			if a.Kind != hStar {
				t.RespHdrs[i].Raw = flipCase(rng, a.Raw)
			}
		}
		add(t, "response-header case varied")
	}
	// ... exactly one letter in upper case, everything else lower (lesson of seeded change C14-l: a lower-casing routine
	// whose "already lower-case?" pre-scan misses one letter of the alphabet)
	for k := 0; k < 3; k++ {
		if len(c.ReqHdrs) > 0 {
			t := clone()
			i := rng.IntN(len(t.ReqHdrs))
			if u := oneUpper(t.ReqHdrs[i].Raw, rng.IntN(64)); u != "" && t.ReqHdrs[i].Kind != hStar {
				t.ReqHdrs[i].Raw = u
				add(t, "request header with exactly one upper-case letter: "+u)
			}
		}
		if len(c.RespHdrs) > 0 {
			t := clone()
			i := rng.IntN(len(t.RespHdrs))
			if u := oneUpper(t.RespHdrs[i].Raw, rng.IntN(64)); u != "" && t.RespHdrs[i].Kind != hStar {
				t.RespHdrs[i].Raw = u
				add(t, "response header with exactly one upper-case letter: "+u)
			}
		}
	}
	// spelling of methods that Fetch normalises
	changed := false
	t := clone()
	for i, a := range t.Methods {
		switch a.Norm {
		case "DELETE", "GET", "HEAD", "OPTIONS", "POST", "PUT":
			if a.Kind == mValid || a.Kind == mSafelisted {
				t.Methods[i].Raw = flipCase(rng, a.Raw)
				changed = true
			}
		}
	}
	if changed {
		add(t, "normalisable method spelling varied")
	}
	// listing safelisted methods / response-header names
	t = clone()
	insertAt(rng, &t.Methods, choose(rng, safelistedMethodAtoms))
	if len(c.Methods) == 0 {
		// an empty list and a list of safelisted methods only mean the same
	}
	add(t, "safelisted method listed")
	t = clone()
	insertAt(rng, &t.RespHdrs, choose(rng, safelistedRespHdrAtoms))
	add(t, "safelisted response-header name listed")
	return
}

func c15Run(r *Run, l *Local, c, twin *CfgSpec, how string, suite []Req, base []Obs) {
	cfg := twin.Config()
	l.cur = func() any { return c15Case{c, twin, how} }
	l.evals++
	m, err := cors.NewMiddleware(cfg)
	if err != nil {
		orig := c.Config()
		r.Violate("twin-rejected", "twins", fmt.Sprintf("twin (%s) rejected although the original is accepted: %v | original %s | twin %s", how, err, cfgString(&orig), cfgString(&cfg)), c15Case{c, twin, how})
		return
	}
	got := runSuite(m, suite, false)
	if d := firstDiff(base, got); d >= 0 {
		orig := c.Config()
		r.Violate("twins-disagree", "twins", fmt.Sprintf("twin (%s) answers %s (debug=%v) differently: %s vs %s | original %s | twin %s", how, reqString(suite[d%len(suite)]), d >= len(suite), got[d], base[d], cfgString(&orig), cfgString(&cfg)), c15Case{c, twin, how})
	}
}

func TestVerif_C15(t *testing.T) {
	r := newRun(t, "C15")
	r.Rule("valid configurations (C06 generator + C02 product slice) x twins differing only in order (all permutations of each list up to length 4, PRNG beyond), repetition, letter case of header names, spelling of Fetch-normalised methods, and listing of safelisted methods / response-header names; " +
		"each twin must be accepted and answer the configuration-derived request suite identically in both debug modes (Config() values are deliberately not compared). evaluation = one twin; non-trivial = every twin (each differs textually from its original), distinct by hash of the pair")
	r.Assume("response equality is on status, all headers and body with a constant inner handler")

	var rc c15Case
	if r.LoadReplay(nil, &rc) {
		l := r.newLocal(0)
		m, err := cors.NewMiddleware(rc.Spec.Config())
		if err != nil {
			t.Fatalf("replay: %v", err)
		}
		suite := suiteFor(rc.Spec.Sem())
		c15Run(r, l, rc.Spec, rc.Twin, rc.How, suite, runSuite(m, suite, false))
		r.merge(l)
		r.Finish(0)
		return
	}
	prod, _ := c02Product()
	stride := pick(r, 23, 2)
	nb := pick(r, 64, 1024)
	per := pick(r, 20, 120)
	one := func(l *Local, c *CfgSpec, sample bool) {
		m, err := cors.NewMiddleware(c.Config())
		if err != nil {
			return // C05's business
		}
		suite := suiteFor(c.Sem())
		base := runSuite(m, suite, false)
		twins, hows := twinsOf(l.Rng, c, true)
		key := specKey(c)
		for i, tw := range twins {
			c15Run(r, l, c, tw, hows[i], suite, base)
			l.NontrivialKey(key, specKey(tw))
			l.counters["twins_"+firstWord(hows[i])]++
			if sample && i == 2 {
				l.Sample("twin", c15Case{c, tw, hows[i]})
			}
		}
	}
	r.Parallel(len(prod), func(l *Local) {
		if r.visit(l.Batch, stride) {
			one(l, prod[l.Batch], false)
		}
	})
	r.Parallel(nb, func(l *Local) {
		for i := 0; i < per; i++ {
			one(l, randRichValidCfg(l.Rng), l.Batch == 0 && i < 2)
		}
	})
	// ---- well-known header names in their canonical spelling against other spellings (lesson of seeded change C15-n:
	// a lookup table of well-known names consulted before the generic lower-casing)
	r.Parallel(len(wellKnownHeaderNames), func(l *Local) {
		name := wellKnownHeaderNames[l.Batch]
		for _, asResp := range []bool{false, true} {
			mkSpec := func(spelling string) *CfgSpec {
				c := &CfgSpec{Origins: []OAtom{secureOriginAtoms[0], secureOriginAtoms[3]}, Methods: []MAtom{validMethodAtoms[0]}, MaxAge: 600}
				a := HAtom{spelling, hValid, asciiLower(spelling)}
				other := hv("X-Listed-1")
				if asResp {
					c.RespHdrs = []HAtom{a, other}
				} else {
					c.ReqHdrs = []HAtom{other, a}
				}
				return c
			}
			c := mkSpec(name)
			m, err := cors.NewMiddleware(c.Config())
			if err != nil {
				continue // a name the library does not accept in this list (forbidden, safelisted-only, ...): not C15's business
			}
			sem := c.Sem()
			suite := suiteFor(sem)
			base := runSuite(m, suite, false)
			for _, sp := range []string{asciiLower(name), asciiUpper(name), oneUpper(name, l.Batch), oneUpper(name, l.Batch+3), flipCase(l.Rng, name)} {
				if sp == "" || sp == name {
					continue
				}
				tw := mkSpec(sp)
				c15Run(r, l, c, tw, "well-known header name "+name+" spelled "+sp, suite, base)
				l.NontrivialKey(name, sp, fmt.Sprint(asResp))
				l.counters["twins_well-known-name"]++
			}
		}
	})
	// ---- one host listed with n discrete ports (n around 8, 16, 32, 64): ascending order against descending / shuffled order
	// (lesson of seeded change C15-o)
	portCounts := []int{5, 7, 8, 9, 15, 16, 17, 31, 32, 33, 64, 65}
	r.Parallel(len(portCounts), func(l *Local) {
		n := portCounts[l.Batch]
		mk := func(ports []int) *CfgSpec {
			c := &CfgSpec{Methods: []MAtom{validMethodAtoms[0]}, MaxAge: 600}
			for _, p := range ports {
				c.Origins = append(c.Origins, oPat(PatSpec{Scheme: "http", Host: "localhost", Port: p}, false, false))
			}
			return c
		}
		asc := make([]int, n)
		for i := range asc {
			asc[i] = 3000 + 101*i
		}
		c := mk(asc)
		m, err := cors.NewMiddleware(c.Config())
		if err != nil {
			return
		}
		suite := suiteFor(c.Sem())
		base := runSuite(m, suite, false)
		for k := 0; k < 6; k++ {
			perm := append([]int(nil), asc...)
			switch k {
			case 0:
				sort.Sort(sort.Reverse(sort.IntSlice(perm)))
			case 1:
				perm = append(perm[1:], perm[0])
			default:
				l.Rng.Shuffle(len(perm), func(i, j int) { perm[i], perm[j] = perm[j], perm[i] })
			}
			tw := mk(perm)
			c15Run(r, l, c, tw, fmt.Sprintf("%d ports of one host in another order", n), suite, base)
			l.NontrivialKey(fmt.Sprint(perm))
			l.counters["twins_port-order"]++
		}
	})
	r.Exhaustive("for every visited configuration: all permutations of each list of length <= 4; every name of a 96-name corpus of well-known header names, canonical spelling vs lower / upper / one-upper / mixed case, as request and as response header")
	r.Finish(1000)
}

// wellKnownHeaderNames: registered and de-facto standard header names in their canonical spelling
var wellKnownHeaderNames = []string{
	"Accept", "Accept-Language", "Accept-Ranges", "Age", "Allow", "Alt-Svc", "Authorization", "Baggage", "Cache-Control", "Content-Disposition",
	"Content-Encoding", "Content-Language", "Content-Location", "Content-Range", "Content-Security-Policy", "Content-Type", "Cross-Origin-Resource-Policy",
	"Device-Memory", "Downlink", "DPR", "ECT", "ETag", "Early-Data", "Expect-CT", "Expires", "Forwarded", "From", "Idempotency-Key", "If-Match",
	"If-Modified-Since", "If-None-Match", "If-Range", "If-Unmodified-Since", "Last-Event-ID", "Last-Modified", "Link", "Location", "Max-Forwards",
	"NEL", "Origin-Agent-Cluster", "Pragma", "Prefer", "Preference-Applied", "Priority", "Range", "Referrer-Policy", "Report-To", "Retry-After", "RTT",
	"Save-Data", "Server", "Server-Timing", "SourceMap", "Strict-Transport-Security", "Timing-Allow-Origin", "Tk", "Traceparent", "Tracestate",
	"Upgrade-Insecure-Requests", "User-Agent", "Vary", "Viewport-Width", "WWW-Authenticate", "Want-Digest", "Warning", "Width",
	"X-Api-Key", "X-Content-Type-Options", "X-Correlation-ID", "X-CSRF-Token", "X-DNS-Prefetch-Control", "X-Forwarded-For", "X-Forwarded-Host",
	"X-Forwarded-Proto", "X-Frame-Options", "X-HTTP-Method", "X-Pingback", "X-Powered-By", "X-RateLimit-Limit", "X-RateLimit-Remaining",
	"X-RateLimit-Reset", "X-Request-ID", "X-Requested-With", "X-Robots-Tag", "X-Total-Count", "X-UA-Compatible", "X-XSS-Protection", "X-Amz-Date",
	"X-Amz-Security-Token", "X-Goog-Api-Key", "X-GitHub-Media-Type", "X-Auth-Token", "X-Real-IP", "X-B3-TraceId", "X-B3-SpanId", "Sentry-Trace",
}

func firstWord(s string) string {
	for i := 0; i < len(s); i++ {
		if s[i] == ' ' {
			return s[:i]
		}
	}
	return s
}
