//go:build verif

package verifharness_test

import (
	"fmt"
	"math/rand/v2"
	"sort"
	"strconv"
	"strings"
	"testing"

	"github.com/jub0bs/cors"
)

// C16 - with debug off, preflight responses disclose nothing beyond what was asked.
// Invariant monitor + canary taint: every configured allow-list contains a token
// the requests never supply; no canary may ever appear in a preflight response.

const (
	canaryOriginHost = "canary-origin.example"
	canaryMethod     = "CANARYMETHOD"
	canaryHeader     = "x-canary-hdr"
	canaryExposed    = "x-canary-exposed"
)

var canaries = []string{"canary-origin", "canarymethod", "x-canary-hdr", "x-canary-exposed"}

// withCanaries adds a canary to every discrete allow-list of c (copying the lists).
func withCanaries(c *CfgSpec) *CfgSpec {
	d := *c
	d.Origins = append([]OAtom(nil), c.Origins...)
	d.Origins = append(d.Origins, oPat(PatSpec{Scheme: "https", Host: canaryOriginHost}, false, false))
	if len(c.Methods) > 0 {
		d.Methods = append(append([]MAtom(nil), c.Methods...), MAtom{canaryMethod, mValid, canaryMethod})
	}
	if len(c.ReqHdrs) > 0 {
		d.ReqHdrs = append(append([]HAtom(nil), c.ReqHdrs...), hv("X-Canary-Hdr"))
	}
	d.RespHdrs = append(append([]HAtom(nil), c.RespHdrs...), hv("X-Canary-Exposed"))
	return &d
}

type c16Case struct {
	Spec *CfgSpec `json:"spec"`
	Req  Req      `json:"request"`
}

func suppliedTokens(q Req) map[string]bool {
	t := map[string]bool{}
	for _, k := range []string{hOrigin, hACRM} {
		for _, v := range q.Header[k] {
			t[v] = true
			t[strings.Trim(v, " \t")] = true
		}
	}
	for _, line := range q.Header[hACRH] {
		t[line] = true
		for _, el := range strings.Split(line, ",") {
			t[strings.Trim(el, " \t")] = true
			t[el] = true
		}
	}
	return t
}

type c16Env struct {
	spec       *CfgSpec
	sem        *Sem
	mw         *cors.Middleware
	origins    []string
	failStatus map[int]int // status -> count, over all failing preflights of this configuration
	// header names and values (status included) of the first failing preflight served behind the pre-set Vary layer
	failDigest, failDigestReq string
}

var c16PresetVary = []string{"Accept-Encoding"}

func headerDigest(o Obs) string {
	keys := make([]string, 0, len(o.Headers))
	for k := range o.Headers {
		keys = append(keys, k)
	}
	sort.Strings(keys)
	var sb strings.Builder
	sb.WriteString(strconv.Itoa(o.Status))
	for _, k := range keys {
		sb.WriteString(" | " + k + ": " + strings.Join(o.Headers[k], " ## "))
	}
	return sb.String()
}

func c16RunCase(r *Run, l *Local, e *c16Env, q Req) {
	l.cur = func() any { return c16Case{e.spec, trimReq(q)} }
	o := serve(e.mw, q)
	l.evals++
	report := func(key, msg string) {
		cfg := e.spec.Config()
		r.Violate(key, "C16-invariants", fmt.Sprintf("%s | request %s | response %s | %s", msg, reqString(q), o, cfgString(&cfg)), c16Case{e.spec, trimReq(q)})
	}
	// canary taint: nowhere in the response - unless the request itself supplied it (a hostile client may guess a
	// configured name; echoing the client's own words discloses nothing; false alarm of the seed sweep, DESIGN.md section 9)
	var reqText strings.Builder
	for _, vs := range q.Header {
		for _, v := range vs {
			if len(v) < 4096 {
				reqText.WriteString(asciiLower(v))
				reqText.WriteByte('\n')
			}
		}
	}
	reqText.WriteString(asciiLower(q.Method))
	supplied := reqText.String()
	for k, vs := range o.Headers {
		for _, v := range vs {
			lv := asciiLower(v)
			for _, c := range canaries {
				if strings.Contains(lv, c) && !strings.Contains(supplied, c) {
					report("canary-leak", fmt.Sprintf("response header %s: %q discloses the configured value %q, which the request did not supply", k, truncate(v, 200), c))
				}
			}
		}
	}
	if strings.Contains(asciiLower(o.Body), "canary") {
		report("canary-leak", "response body discloses a configured value")
	}
	success := o.ok2xx() && len(o.get(hACAO)) > 0
	// preflights that the configuration certainly does not permit (judged from the request and the specification, not
	// from the response): a single Access-Control-Request-Method that is a token, is not byte-exactly GET / HEAD / POST and
	// is not configured; or a single Origin that not even the lenient recogniser accepts. They must look like every
	// other failure (lesson of seeded change C16-md: a step that "passes" without granting anything)
	if isPreflightReq(q) && success {
		why := ""
		if v := q.Header[hACRM]; len(v) == 1 && isToken(v[0]) && v[0] != "GET" && v[0] != "HEAD" && v[0] != "POST" && !e.sem.AnyMethod && !e.sem.Methods[v[0]] {
			why = fmt.Sprintf("method %q is neither CORS-safelisted (byte-exact) nor configured", v[0])
		}
		if v := q.Header[hOrigin]; why == "" && len(v) == 1 && !e.sem.AllowAll && !e.sem.originAllowedRaw(v[0]) {
			why = fmt.Sprintf("origin %q is not allowed", truncate(v[0], 100))
		}
		if why != "" {
			report("unpermitted-preflight-looks-successful", "a preflight the configuration does not permit ("+why+") is answered with an ok status and Access-Control-Allow-Origin instead of like every other failing preflight")
			return
		}
	}
	if !success {
		l.n2++
		for k, v := range o.Headers {
			if strings.HasPrefix(k, "Access-Control-") && len(v) > 0 {
				report("failure-carries-cors-header", fmt.Sprintf("failed preflight (status %d) carries %s: %q", o.Status, k, v))
			}
		}
		if o.ok2xx() {
			report("failure-status", fmt.Sprintf("failed preflight answered with ok status %d", o.Status))
		}
		e.failStatus[o.Status]++
		if len(e.failStatus) > 1 {
			report("failure-status-depends-on-reason", fmt.Sprintf("failed preflights of this configuration were answered with different statuses: %v", e.failStatus))
			e.failStatus = map[int]int{o.Status: 1}
		}
		if o.Body != "" || o.Calls != 0 {
			report("failure-body", "failed preflight has a body or reached the handler")
		}
		// the same request behind an outer layer that pre-set Vary: every failing preflight of the configuration must
		// carry the SAME header set, whichever step failed (lesson of seeded change C16-mc: a failure path that loses the
		// middleware's Vary names)
		if isPreflightReq(q) {
			op := serveWithPreset(e.mw, c16PresetVary, q)
			l.evals++
			if !op.ok2xx() || len(op.get(hACAO)) == 0 {
				d := headerDigest(op)
				if e.failDigest == "" {
					e.failDigest, e.failDigestReq = d, reqString(q)
				} else if d != e.failDigest {
					report("failure-headers-depend-on-reason", fmt.Sprintf("behind an outer layer that set Vary: %q, failed preflights of this configuration carry different header sets: %s (for %s) vs %s (this request)", c16PresetVary, e.failDigest, e.failDigestReq, d))
					e.failDigest = ""
				}
			}
		}
		return
	}
	l.n1++
	sup := suppliedTokens(q)
	maxAge := ""
	switch {
	case e.sem.MaxAge == -1:
		maxAge = "0"
	case e.sem.MaxAge > 0:
		maxAge = strconv.Itoa(e.sem.MaxAge)
	}
	starAuth := e.sem.StarHdrs && !e.sem.Cred && e.sem.AuthListed
	for k, vs := range o.Headers {
		if !strings.HasPrefix(k, "Access-Control-") {
			continue
		}
		for _, v := range vs {
			if sup[v] {
				continue
			}
			for _, tok := range strings.Split(v, ",") {
				tok = strings.Trim(tok, " \t")
				switch {
				case tok == "" || tok == "*" || tok == "true" || sup[tok]:
				case tok == maxAge && k == hACMA:
				case tok == "authorization" && starAuth && k == hACAH:
				default:
					report("success-names-unrequested-token", fmt.Sprintf("successful preflight response names %q in %s: %q, which the request did not supply", truncate(tok, 100), k, truncate(v, 200)))
				}
			}
		}
	}
}

func TestVerif_C16(t *testing.T) {
	r := newRun(t, "C16")
	r.Rule("C02 configuration product and PRNG origin-rich configurations, each with a canary token added to every discrete allow-list (origins, methods, request headers, exposed headers), debug off, x preflights: succeeding, failing at the origin / PNA / method / header step, and hostile Origin/ACRM/ACRH/ACRPN values (see C03). " +
		"evaluation = one preflight exchange; oracle: failure => no Access-Control-* header, non-ok status identical for all failures of the configuration, empty body, and - behind an outer layer that pre-set Vary - one and the same header set for all failures; a preflight the configuration certainly does not permit (unconfigured non-safelisted method token, origin no recogniser accepts) must be among the failures; success => every token of every Access-Control-* value is `*`, `true`, the configured max-age or supplied by the request (`authorization` in the `*,authorization` case); no canary anywhere. " +
		"non-trivial = preflight from an allowed origin (so that the method/header/PNA steps and the success path are reached), distinct by hash")
	r.Assume("success of a preflight is read off the response itself (ok status and Access-Control-Allow-Origin present)")

	var rc c16Case
	if r.LoadReplay(nil, &rc) {
		l := r.newLocal(0)
		mw, err := cors.NewMiddleware(rc.Spec.Config())
		if err != nil {
			t.Fatalf("replay: %v", err)
		}
		e := &c16Env{spec: rc.Spec, sem: rc.Spec.Sem(), mw: mw, failStatus: map[int]int{}}
		c16RunCase(r, l, e, expandReq(rc.Req))
		// second, certainly failing preflight to compare statuses with
		c16RunCase(r, l, e, buildReq("OPTIONS", []string{"https://never-allowed.invalid"}, []string{"PUT"}, nil, nil, nil))
		r.merge(l)
		r.Finish(0)
		return
	}
	prod, _ := c02Product()
	nProd := len(prod)
	// origin-rich PRNG configurations (several schemes/ports per host, IP literals, `*` mixes) after the product
	{
		rng := rand.New(rand.NewPCG(r.Seed, 16))
		for i := 0; i < pick(r, 120, 6000); i++ {
			prod = append(prod, randRichValidCfg(rng))
		}
	}
	cfgStride := pick(r, 5, 1)
	nRand := pick(r, 300, 2500)
	r.Parallel(len(prod), func(l *Local) {
		if l.Batch < nProd && !r.visit(l.Batch, cfgStride) {
			return
		}
		c := withCanaries(prod[l.Batch])
		if !c.valid() {
			return
		}
		mw, err := newMiddlewareVia(c.Config(), l.Batch)
		if err != nil {
			return
		}
		if l.Batch%3 == 1 {
			// the once-wrapped handler has served traffic while debug mode was ON before it is switched off, with no
			// reconfiguration in between (lesson of seeded change C16-s: per-handler state refreshed by Reconfigure only)
			mw.SetDebug(true)
			serve(mw, actualReq("GET", "https://example.com"))
			serve(mw, preflightReq("https://example.com", "PUT", []string{"x-not-listed-anywhere"}, false))
			mw.SetDebug(false)
			l.counters["middlewares_that_served_in_debug_mode_before"]++
		}
		sem := c.Sem()
		e := &c16Env{spec: c, sem: sem, mw: mw, failStatus: map[int]int{}}
		var allowed []string
		for _, o := range allowedInstances(prod[l.Batch].Sem().Pats) {
			allowed = append(allowed, o.String())
		}
		if len(allowed) == 0 {
			allowed = []string{"https://example.com"}
		}
		seen := map[string]bool{}
		for _, o := range allowedInstances(prod[l.Batch].Sem().Pats) {
			for _, v := range hostileOriginValues(o) {
				if !seen[v] {
					seen[v] = true
					e.origins = append(e.origins, v)
				}
			}
		}
		for _, o := range c02OriginCandidates {
			e.origins = append(e.origins, o.String())
		}
		key := specKey(c)
		rng := l.Rng
		if l.Batch%2 == 0 {
			poisonRound(mw, allowed[0]) // hostile wrapped handler first (see poisonRound)
		}
		// systematic grid from allowed origins: method x header list x PNA
		acrms := []string{"GET", "PUT", "put", "PATCH", "patch", "DELETE", "OPTIONS", "CHICKEN", "chicken", "UNLISTED", ""}
		acrhs := [][]string{nil, {"x-listed-1"}, {"x-listed-1,x-listed-2"}, {"authorization"}, {"authorization,x-listed-1"}, {"content-type"}, {"x-unlisted"},
			{"x-listed-1", "x-listed-2"}, {"x-listed-2,x-listed-1"}, {"X-Listed-1"}, {"x-listed-1, x-listed-2"}, {""}, {"x-listed-1,,,x-listed-2"}}
		for _, ov := range allowed {
			for _, m := range acrms {
				for _, h := range acrhs {
					for _, pn := range [][]string{nil, {"true"}} {
						q := buildReq("OPTIONS", []string{ov}, []string{m}, h, pn, nil)
						c16RunCase(r, l, e, q)
						l.NontrivialKey(key, reqString(q))
					}
				}
			}
		}
		for _, ov := range e.origins {
			c16RunCase(r, l, e, buildReq("OPTIONS", []string{ov}, []string{"PUT"}, nil, nil, nil))
		}
		for i := 0; i < nRand; i++ {
			q := randHostileReq(rng, sem, e.origins)
			q.Method = "OPTIONS"
			if len(q.Header[hOrigin]) == 0 {
				q.Header[hOrigin] = []string{choose(rng, allowed)}
			}
			if len(q.Header[hACRM]) == 0 {
				q.Header[hACRM] = []string{"PUT"}
			}
			if rng.IntN(2) == 0 {
				q.Header[hOrigin] = []string{choose(rng, allowed)}
			}
			// the request must not itself supply a canary
			if strings.Contains(asciiLower(reqString(q)), "canary") {
				continue
			}
			c16RunCase(r, l, e, q)
			if ov, _ := firstVal(q, hOrigin); sem.AllowAll || sem.originAllowedRaw(ov) {
				l.NontrivialKey(key, reqString(q))
			}
			if l.nsamp < 2 && i < 2 {
				l.Sample("random-preflight", c16Case{c, trimReq(q)})
			}
		}
	})
	r.mu.Lock()
	r.counters["preflights_succeeded"], r.counters["preflights_failed"] = r.counters["n1"], r.counters["n2"]
	delete(r.counters, "n1")
	delete(r.counters, "n2")
	su, fa := r.counters["preflights_succeeded"], r.counters["preflights_failed"]
	r.mu.Unlock()
	if r.Phase != "coverage" && (su < 1000 || fa < 1000) {
		r.Inconclusive(fmt.Sprintf("outcome distribution too skewed: succeeded=%d failed=%d", su, fa))
	}
	r.Finish(5000)
}
