//go:build verif

package verifharness_test

import (
	"fmt"
	"math/rand/v2"
	"strings"
	"testing"

	"github.com/jub0bs/cors"
)

// ---------------------------------------------------------------------------
// the "C02 configuration product" (also used by C03, C09, C10, C16)

func mv(raw string) MAtom { return MAtom{raw, mValid, fetchNormalizeMethod(raw)} }
func msafe(raw string) MAtom {
	return MAtom{raw, mSafelisted, fetchNormalizeMethod(raw)}
}
func hauth(raw string) HAtom { return HAtom{raw, hAuth, "authorization"} }

var (
	prodOrigins = [][]OAtom{
		{oStarAtom},
		{oPat(PatSpec{Scheme: "https", Host: "example.com"}, false, false)},
		{oPat(PatSpec{Scheme: "https", Subs: true, Host: "example.com"}, false, false)},
		{oPat(PatSpec{Scheme: "https", Host: "example.com", Port: portAny}, false, false)},
		{oPat(PatSpec{Scheme: "https", Subs: true, Host: "example.com", Port: portAny}, false, false)},
		{oPat(PatSpec{Scheme: "https", Subs: true, Host: "example.com"}, false, false), oPat(PatSpec{Scheme: "https", Host: "a.example.com", Port: 8443}, false, false), oPat(PatSpec{Scheme: "https", Host: "example.com"}, false, false)},
		{oStarAtom, oPat(PatSpec{Scheme: "https", Host: "example.com"}, false, false)},
		{oPat(PatSpec{Scheme: "http", Host: "localhost", Port: portAny}, false, false), oPat(PatSpec{Scheme: "http", Host: "::1", IP6: true, Port: 9090}, false, false)},
		// one host under several schemes and ports, greater scheme first / last
		{oPat(PatSpec{Scheme: "https", Host: "localhost", Port: 8443}, false, false), oPat(PatSpec{Scheme: "http", Host: "localhost", Port: 3000}, false, false), oPat(PatSpec{Scheme: "https", Host: "example.com"}, false, false)},
		{oPat(PatSpec{Scheme: "http", Host: "localhost", Port: 3000}, false, false), oPat(PatSpec{Scheme: "https", Host: "localhost"}, false, false), oPat(PatSpec{Scheme: "connector", Host: "localhost", Port: portAny}, false, false)},
		// loopback addresses other than 127.0.0.1 (the whole 127.0.0.0/8 block is loopback) next to port 65535
		{oPat(PatSpec{Scheme: "http", Host: "127.8.9.10", Port: portAny}, false, false), oPat(PatSpec{Scheme: "http", Host: "127.0.0.2"}, false, false), oPat(PatSpec{Scheme: "http", Host: "127.0.0.1", Port: 3000}, false, false), oPat(PatSpec{Scheme: "https", Host: "example.com", Port: 65535}, false, false)},
	}
	prodMethods = [][]MAtom{
		nil, {mStarAtom}, {mv("PUT")}, {mv("put")}, {mv("patch")}, {mv("PATCH"), mv("DELETE")}, {mStarAtom, mv("PUT")},
		{msafe("GET")}, {mv("OPTIONS")}, {mv("CHICKEN")}, {mv("OPTIONS-LIST"), mv("putx")},
		// byte-case variants of methods that browsers do NOT normalise are different methods (lesson of seeded change C02-kb)
		{mv("patch"), mv("PATCH"), mv("DELETE"), mv("Chicken"), mv("CHICKEN")},
	}
	prodReqHdrs = [][]HAtom{
		nil, {hStarAtom}, {hStarAtom, hauth("Authorization")}, {hauth("Authorization"), hStarAtom}, {hauth("AUTHORIZATION")},
		{hv("X-Listed-1"), hv("x-listed-2")}, {hv("X-Listed-1"), hStarAtom}, {hv("X-Listed-1"), hauth("Authorization"), hv("x-listed-2")},
		{hv("Content-Type"), hv("x-listed-2"), hv("X-Listed-1")},
		{hv("Accept-Language"), hv("X-Listed-1"), hv("content-language"), hv("Accept")},
	}
	prodMaxAge  = []int{0, -1, 600}
	prodStatus  = []int{0, 200}
	prodRespHdr = [][]HAtom{nil, {hv("X-Exposed-1"), hv("x-exposed-2")}, {hStarAtom}}
)

// c02Product enumerates the configuration product; configurations that are
// invalid by S4 (e.g. `*` with credentials) are dropped and counted.
func c02Product() (valid []*CfgSpec, dropped int) {
	for _, cred := range []bool{false, true} {
		for _, pna := range []int{pnaOff, pnaOn, pnaNoCors} {
			for _, o := range prodOrigins {
				for _, m := range prodMethods {
					for _, h := range prodReqHdrs {
						for _, ma := range prodMaxAge {
							for si, st := range prodStatus {
								c := &CfgSpec{Origins: o, Cred: cred, PNA: pna, Methods: m, ReqHdrs: h, MaxAge: ma, Status: st}
								// response headers are not a C02 dimension; rotate them so that every value occurs
								c.RespHdrs = prodRespHdr[(len(valid)+si)%len(prodRespHdr)]
								if cred && len(c.RespHdrs) == 1 && c.RespHdrs[0].Kind == hStar {
									c.RespHdrs = prodRespHdr[1]
								}
								if !c.valid() {
									dropped++
									continue
								}
								valid = append(valid, c)
							}
						}
					}
				}
			}
		}
	}
	return
}

var (
	c02OriginCandidates = []OriginSpec{
		{Scheme: "https", Host: "example.com"},
		{Scheme: "https", Host: "a.example.com"},
		{Scheme: "https", Host: "b.a.example.com", Port: 8443},
		{Scheme: "https", Host: "example.com", Port: 8443},
		{Scheme: "https", Host: "a.example.com", Port: 8443},
		{Scheme: "http", Host: "localhost", Port: 3000},
		{Scheme: "http", Host: "::1", IP6: true, Port: 9090},
		{Scheme: "https", Host: "example.com", Port: 65535}, // the largest and the smallest port
		{Scheme: "https", Host: "a.example.com", Port: 1},
		{Scheme: "https", Host: "b.a.example.com", Port: 65535},
		{Scheme: "http", Host: "localhost", Port: 65535},
		{Scheme: "http", Host: "127.0.0.1", Port: 3000}, // loopback addresses other than the usual one
		{Scheme: "http", Host: "127.8.9.10", Port: 8080},
		{Scheme: "http", Host: "127.0.0.2"},
		// near-misses and unrelated
		{Scheme: "https", Host: "aexample.com"},
		{Scheme: "http", Host: "example.com"},
		{Scheme: "https", Host: "example.com.evil.org"},
		{Scheme: "https", Host: "xample.com"},
		{Scheme: "https", Host: "example.org"},
		{Scheme: "http", Host: "::1", IP6: true, Port: 9091},
		{Scheme: "https", Host: "example.com."},
		{Scheme: "https", Host: "localhost", Port: 8443},
		{Scheme: "https", Host: "localhost", Port: 3000},
		{Scheme: "http", Host: "localhost", Port: 8443},
		{Scheme: "https", Host: "localhost"},
		{Scheme: "connector", Host: "localhost", Port: 3000},
	}
	c02Methods     = []string{"GET", "HEAD", "POST", "PUT", "put", "Put", "patch", "PATCH", "DELETE", "delete", "OPTIONS", "CHICKEN", "chicken", "Chicken", "Patch", "get", "OPTIONS-LIST", "putx"}
	c02HeaderNames = []string{"authorization", "content-type", "x-listed-1", "x-listed-2", "x-unlisted", "accept-language"}
)

type c02Case struct {
	Spec   *CfgSpec `json:"spec"`
	Debug  bool     `json:"debug"`
	Intent Intent   `json:"intent"`
	ACRH   []string `json:"acrh_lines,omitempty"`
}

// perturbACRH renders names with the intermediary alterations the
// documentation tolerates: <= 1 OWS byte per side, <= maxEmpty empty elements
// in total, 1..4 field lines.
func perturbACRH(rng *rand.Rand, names []string, maxEmpty int) []string {
	if len(names) == 0 {
		return nil
	}
	ows := []string{"", "", " ", "\t"}
	var elems []string
	empties := 0
	budget := 0
	if maxEmpty > 0 {
		budget = rng.IntN(maxEmpty + 1)
		if rng.IntN(3) > 0 {
			budget = min(budget, 2)
		}
	}
	for _, n := range names {
		for empties < budget && rng.IntN(3) == 0 {
			elems = append(elems, choose(rng, []string{"", " ", "\t"}))
			empties++
		}
		elems = append(elems, choose(rng, ows)+n+choose(rng, ows))
	}
	for empties < budget {
		elems = append(elems, "")
		empties++
	}
	nLines := 1 + rng.IntN(min(4, len(elems)))
	cuts := map[int]bool{}
	for k := 1; k < nLines; k++ {
		cuts[1+rng.IntN(len(elems)-1)] = true
	}
	var lines []string
	var cur []string
	for i, e := range elems {
		if cuts[i] && len(cur) > 0 {
			lines = append(lines, strings.Join(cur, ","))
			cur = nil
		}
		cur = append(cur, e)
	}
	lines = append(lines, strings.Join(cur, ","))
	return lines
}

type c02Env struct {
	spec *CfgSpec
	sem  *Sem
	mw   [2]*cors.Middleware // debug off / on
}

func newC02Env(c *CfgSpec) (*c02Env, error) {
	e := &c02Env{spec: c, sem: c.Sem()}
	for d := 0; d < 2; d++ {
		mw, err := newMiddlewareViaDbg(c.Config(), int(hashString(specKey(c))>>3&0xffff)+5*d, d == 1)
		if err != nil {
			return nil, err
		}
		e.mw[d] = mw
	}
	return e, nil
}

func c02RunCase(r *Run, l *Local, e *c02Env, debug bool, in *Intent, acrh []string) {
	want := e.sem.permits(in)
	d := 0
	if debug {
		d = 1
	}
	l.cur = func() any { return c02Case{e.spec, debug, *in, acrh} }
	got := browserFetch(e.mw[d], in, acrh)
	l.evals++
	if got.Preflighted || got.Success {
		l.nontrivN++
	}
	if got.Success {
		l.n1++
	} else {
		l.n2++
		l.counters["browser_failed_at_"+got.Step]++
	}
	if got.Success != want {
		key := "browser-succeeds-but-config-forbids"
		if want {
			key = "browser-fails-but-config-permits"
		}
		cfg := e.spec.Config()
		r.Violate(key, "S2-vs-S3", fmt.Sprintf("intent %+v acrh=%q debug=%v: browser verdict success=%v (step %q), configuration permits=%v | %s",
			*in, acrh, debug, got.Success, got.Step, want, cfgString(&cfg)), c02Case{e.spec, debug, *in, acrh})
	}
}

func TestVerif_C02(t *testing.T) {
	r := newRun(t, "C02")
	r.Rule("configuration product Credentialed x PNA{off,on,nocors} x 8 origin-list kinds x 10 method lists x 9 request-header lists x 3 max-ages x 2 statuses (invalid combinations dropped) " +
		"x intents: origin candidates (allowed, wildcard-allowed, every near-miss class, unrelated) x 14 method spellings x all 64 subsets of 6 header names (incl. a CORS-safelisted request-header name, which browsers list when its value is not safelisted) x credentials omit/include x PNA target no/yes x debug off/on x tolerated ACRH perturbations. " +
		"For refused origins a few representative intents only. evaluation = one browser run (<= 2 requests through the real middleware); non-trivial = run that required a preflight or ended in success, each (configuration, intent, debug, rendering) generated once")
	r.Assume("S3 transcribes Fetch (CORS-preflight fetch, CORS check, method normalisation, extract header list values) and the PNA draft's preflight rule; S2 is the statement of C02; both are independent of the implementation")

	var rc c02Case
	if r.LoadReplay(nil, &rc) {
		l := r.newLocal(0)
		e, err := newC02Env(rc.Spec)
		if err != nil {
			t.Fatalf("replay: config rejected: %v", err)
		}
		c02RunCase(r, l, e, rc.Debug, &rc.Intent, rc.ACRH)
		r.merge(l)
		r.Finish(0)
		return
	}

	prod, dropped := c02Product()
	r.Set("configurations", len(prod))
	r.Set("configurations_dropped_as_invalid_by_S4", dropped)

	// header subsets
	var subsets [][]string
	for m := 0; m < 64; m++ {
		var s []string
		for b := 0; b < 6; b++ {
			if m&(1<<b) != 0 {
				s = append(s, c02HeaderNames[b])
			}
		}
		subsets = append(subsets, s)
	}
	// quick: a stratified slice of the cells of each configuration; thorough: all cells
	stride := pick(r, 193, 1)
	pertPerCell := pick(r, 1, 3)
	r.Parallel(len(prod), func(l *Local) {
		c := prod[l.Batch]
		e, err := newC02Env(c)
		if err != nil {
			cfg := c.Config()
			r.Violate("valid-rejected", "S4", fmt.Sprintf("product configuration rejected: %v | %s", err, cfgString(&cfg)), c02Case{Spec: c})
			return
		}
		rng := l.Rng
		cell := l.Batch * 31 // de-phase the stride between configurations
		for _, o := range c02OriginCandidates {
			allowed := e.sem.originAllowed(o)
			for mi, m := range c02Methods {
				for si, hs := range subsets {
					if !allowed && !(mi == si%len(c02Methods) && si%16 == 0) {
						continue // refused origins: representatives only
					}
					for _, cm := range []bool{false, true} {
						for _, pt := range []bool{false, true} {
							for _, dbg := range []bool{false, true} {
								cell++
								if stride > 1 && cell%stride != 0 {
									continue
								}
								in := Intent{Origin: o, Method: m, Headers: hs, CredMode: cm, PNATarget: pt}
								c02RunCase(r, l, e, dbg, &in, nil)
								// thorough: every cell with the canonical rendering, perturbed renderings on a hashed 1/6 of the cells
								if len(hs) > 0 && (stride > 1 || r.visit(cell, 6)) {
									names := canonicalACRHNames(hs)
									for k := 0; k < pertPerCell; k++ {
										maxEmpty := 3
										if k == 2 {
											maxEmpty = 16
										}
										c02RunCase(r, l, e, dbg, &in, perturbACRH(rng, names, maxEmpty))
									}
								}
								if l.Batch%1000 == 777 && l.nsamp < 3 && len(hs) == 2 && cm && !pt {
									l.Sample("cell", c02Case{c, dbg, in, perturbACRH(rng, canonicalACRHNames(hs), 3)})
								}
							}
						}
					}
				}
			}
		}
	})
	if stride == 1 {
		r.Exhaustive("the full configuration product x every intent cell (canonical ACRH rendering); perturbed renderings (3 per cell) on a hashed 1/6 of the cells")
	}
	r.mu.Lock()
	r.counters["browser_success"], r.counters["browser_failure"] = r.counters["n1"], r.counters["n2"]
	delete(r.counters, "n1")
	delete(r.counters, "n2")
	su, fa := r.counters["browser_success"], r.counters["browser_failure"]
	r.mu.Unlock()
	if r.Phase != "coverage" && (su < 1000 || fa < 1000) {
		r.Inconclusive(fmt.Sprintf("verdict distribution too skewed: success=%d failure=%d", su, fa))
	}
	r.Finish(10000)
}
