//go:build verif

package verifharness_test

import (
	"fmt"
	"net/http"
	"runtime"
	"strings"
	"testing"

	"github.com/jub0bs/cors"
)

// C18 - per-request allocations do not grow with attacker-controlled sizes.
// Monitor: runtime allocation accounting (testing.AllocsPerRun) around ServeHTTP
// with a reusable minimal writer and a no-op handler; plain build (no race detector, no coverage).

type reusableWriter struct{ h http.Header }

func (w *reusableWriter) Header() http.Header         { return w.h }
func (w *reusableWriter) WriteHeader(int)             {}
func (w *reusableWriter) Write(b []byte) (int, error) { return len(b), nil }

type noopHandler struct{}

func (noopHandler) ServeHTTP(http.ResponseWriter, *http.Request) {}

type c18Case struct {
	Config string `json:"config_kind"`
	Debug  bool   `json:"debug"`
	Req    string `json:"request_kind"`
	Size   int    `json:"size"`
}

type c18Cfg struct {
	name string
	cfg  cors.Config
}

var c18Cfgs = []c18Cfg{
	{"allow-all", cors.Config{Origins: []string{"*"}, Methods: []string{"PUT"}, RequestHeaders: []string{"X-Listed-1", "X-Listed-2"}, MaxAgeInSeconds: 30, ResponseHeaders: []string{"X-Exposed"}}},
	{"discrete", cors.Config{Origins: []string{"https://*.example.com", "https://example.com:*"}, Methods: []string{"PUT", "DELETE"}, RequestHeaders: []string{"X-Listed-1", "X-Listed-2", "Authorization"}, MaxAgeInSeconds: 30, ResponseHeaders: []string{"X-Exposed"}}},
	{"star-headers-anonymous", cors.Config{Origins: []string{"https://*.example.com"}, Methods: []string{"*"}, RequestHeaders: []string{"*"}}},
	{"star-headers-anonymous-auth", cors.Config{Origins: []string{"https://*.example.com"}, Methods: []string{"*"}, RequestHeaders: []string{"*", "Authorization"}}},
	{"star-headers-credentialed", cors.Config{Origins: []string{"https://*.example.com"}, Credentialed: true, Methods: []string{"*"}, RequestHeaders: []string{"*"}}},
	{"pna", cors.Config{Origins: []string{"https://*.example.com"}, Credentialed: true, Methods: []string{"PUT"}, RequestHeaders: []string{"X-Listed-1"}, ExtraConfig: cors.ExtraConfig{PrivateNetworkAccess: true}}},
	{"pna-nocors", cors.Config{Origins: []string{"https://*.example.com"}, RequestHeaders: []string{"X-Listed-1"}, ExtraConfig: cors.ExtraConfig{PrivateNetworkAccessInNoCORSModeOnly: true}}},
	// rare-but-legitimate scalars on the reflecting configurations (lesson of seeded change C18-p: a path gated on status 200)
	{"star-headers-credentialed-status-200", cors.Config{Origins: []string{"https://*.example.com"}, Credentialed: true, Methods: []string{"*"}, RequestHeaders: []string{"*"}, MaxAgeInSeconds: -1, ExtraConfig: cors.ExtraConfig{PreflightSuccessStatus: 200}}},
	{"discrete-status-299", cors.Config{Origins: []string{"https://*.example.com"}, Methods: []string{"PUT"}, RequestHeaders: []string{"X-Listed-1", "X-Listed-2"}, MaxAgeInSeconds: 86400, ExtraConfig: cors.ExtraConfig{PreflightSuccessStatus: 299}}},
	{"discrete-status-200", cors.Config{Origins: []string{"https://*.example.com"}, Methods: []string{"PUT"}, RequestHeaders: []string{"X-Listed-1", "X-Listed-2"}, ExtraConfig: cors.ExtraConfig{PreflightSuccessStatus: 200}}},
	{"star-headers-credentialed-pna", cors.Config{Origins: []string{"https://*.example.com"}, Credentialed: true, Methods: []string{"*"}, RequestHeaders: []string{"*"}, ExtraConfig: cors.ExtraConfig{PrivateNetworkAccess: true}}},
	{"star-methods-pna-nocors", cors.Config{Origins: []string{"https://*.example.com"}, Methods: []string{"*"}, RequestHeaders: []string{"X-Listed-1", "X-Listed-2"}, ExtraConfig: cors.ExtraConfig{PrivateNetworkAccessInNoCORSModeOnly: true}}},
	{"allow-all-star-methods", cors.Config{Origins: []string{"*"}, Methods: []string{"*"}, RequestHeaders: []string{"X-Listed-1", "X-Listed-2"}}},
	// hundreds of discrete names in every list (lesson of seeded change C18-n: a per-lookup cost that only exists for large sets)
	{"large-lists", cors.Config{Origins: c18ManyOrigins(300), Methods: append(c18ManyNames("M", 300), "PUT", "DELETE"), RequestHeaders: append(c18ManyNames("x-h", 1100), "X-Listed-1", "X-Listed-2"), MaxAgeInSeconds: 30, ResponseHeaders: c18ManyNames("x-e", 300)}},
}

func c18ManyNames(prefix string, n int) []string {
	out := make([]string, n)
	for i := range out {
		out[i] = fmt.Sprintf("%s%04d", prefix, i)
	}
	return out
}

func c18ManyOrigins(n int) []string {
	out := []string{"https://*.example.com", "https://example.com:*"}
	for i := 0; i < n; i++ {
		out = append(out, fmt.Sprintf("https://tenant%04d.example.org", i))
	}
	return out
}

// c18Reqs: request kinds with one attacker-sized field; n is the size.
var c18Reqs = []struct {
	name     string
	elements bool // n counts list elements / field lines rather than bytes
	mk       func(n int) Req
}{
	{"non-cors GET, n-byte unrelated header", false, func(n int) Req {
		return buildReq("GET", nil, nil, nil, nil, map[string][]string{"X-Junk": {strings.Repeat("j", n)}})
	}},
	{"actual GET, Origin with an n-byte label (allowed while it fits)", false, func(n int) Req {
		return actualReq("GET", "https://"+strings.Repeat("a", n)+".example.com")
	}},
	{"actual GET, Origin with n labels", true, func(n int) Req {
		return actualReq("GET", "https://"+strings.Repeat("a.", n)+"example.com")
	}},
	{"actual GET, refused Origin of n bytes", false, func(n int) Req {
		return actualReq("GET", "https://"+strings.Repeat("b", n)+".other.org")
	}},
	{"actual GET, malformed Origin of n upper-case bytes", false, func(n int) Req {
		return actualReq("GET", "https://"+strings.Repeat("A", n))
	}},
	{"actual GET, n Origin field lines", true, func(n int) Req {
		v := make([]string, n)
		for i := range v {
			v[i] = "https://a.example.com"
		}
		return Req{Method: "POST", Header: map[string][]string{hOrigin: v}}
	}},
	{"preflight, n-byte Origin label", false, func(n int) Req {
		return preflightReq("https://"+strings.Repeat("a", n)+".example.com", "PUT", []string{"x-listed-1"}, false)
	}},
	{"preflight, n-byte ACRM", false, func(n int) Req {
		return preflightReq("https://a.example.com", strings.Repeat("M", n), nil, false)
	}},
	{"preflight, n-byte single ACRH element", false, func(n int) Req {
		return preflightReq("https://a.example.com", "PUT", []string{strings.Repeat("h", n)}, false)
	}},
	{"preflight, ACRH with n junk elements", true, func(n int) Req {
		return preflightReq("https://a.example.com", "PUT", []string{strings.Repeat("a,", n) + "z"}, false)
	}},
	{"preflight, ACRH with n empty elements", true, func(n int) Req {
		return preflightReq("https://a.example.com", "PUT", []string{strings.Repeat(",", n)}, false)
	}},
	{"preflight, ACRH allowed names then n-byte OWS run", false, func(n int) Req {
		return preflightReq("https://a.example.com", "PUT", []string{"x-listed-1" + strings.Repeat(" ", n) + ",x-listed-2"}, false)
	}},
	{"preflight, n ACRH field lines", true, func(n int) Req {
		v := make([]string, n)
		for i := range v {
			v[i] = "x-listed-1"
		}
		return preflightReq("https://a.example.com", "PUT", v, false)
	}},
	{"preflight, n ACRH field lines (sorted, 2 names then empties)", true, func(n int) Req {
		v := make([]string, n)
		if n > 0 {
			v[0] = "x-listed-1"
		}
		if n > 1 {
			v[1] = "x-listed-2"
		}
		return preflightReq("https://a.example.com", "PUT", v, false)
	}},
	{"preflight with ACRPN, n-byte ACRH", false, func(n int) Req {
		return preflightReq("https://a.example.com", "GET", []string{"x-listed-1," + strings.Repeat("y", n)}, true)
	}},
	{"preflight from a refused n-byte Origin", false, func(n int) Req {
		return preflightReq("https://"+strings.Repeat("b", n)+".other.org", "PUT", []string{"x-listed-1"}, false)
	}},
	{"actual OPTIONS, n-byte Origin", false, func(n int) Req {
		return actualReq("OPTIONS", "https://"+strings.Repeat("a", n)+".example.com")
	}},
}

// element templates for the "n list elements" families: lower-case tokens, mixed/upper case,
// non-token bytes, non-ASCII, padded, long
var c18Elems = []string{"X-Aa", "UPPER", "x@y", "\xc3\xa9", " a", "a ", "x-listed-1", "averyveryverylongheadernamethatisnotallowed", "\x00", "a;b"}

func init() {
	for _, el := range c18Elems {
		el := el
		c18Reqs = append(c18Reqs, struct {
			name     string
			elements bool
			mk       func(n int) Req
		}{fmt.Sprintf("preflight, ACRH with n elements %q", el), true, func(n int) Req {
			return preflightReq("https://a.example.com", "PUT", []string{strings.Repeat(el+",", n) + el}, false)
		}}, struct {
			name     string
			elements bool
			mk       func(n int) Req
		}{fmt.Sprintf("preflight, n ACRH field lines %q", el), true, func(n int) Req {
			v := make([]string, n)
			for i := range v {
				v[i] = el
			}
			return preflightReq("https://a.example.com", "GET", v, false)
		}})
	}
	// n DISTINCT elements that look right one by one: lower-case, short, strictly increasing, unique - only their
	// membership in the allowed set is wrong (lesson of seeded change C18-kb: tokenise everything first, judge afterwards)
	seq := func(i int) string {
		b := []byte("aaaaaa")
		for k := len(b) - 1; k >= 0 && i > 0; k-- {
			b[k] = byte('a' + i%26)
			i /= 26
		}
		return string(b)
	}
	type kind = struct {
		name     string
		elements bool
		mk       func(n int) Req
	}
	c18Reqs = append(c18Reqs,
		kind{"preflight, ACRH with n distinct sorted short names on one line", true, func(n int) Req {
			var sb strings.Builder
			for i := 0; i < n; i++ {
				if i > 0 {
					sb.WriteByte(',')
				}
				sb.WriteString(seq(i))
			}
			return preflightReq("https://a.example.com", "PUT", []string{sb.String()}, false)
		}},
		kind{"preflight, ACRH with n distinct sorted short names after an allowed one, OWS around each", true, func(n int) Req {
			var sb strings.Builder
			sb.WriteString("authorization")
			for i := 0; i < n; i++ {
				sb.WriteString(", b")
				sb.WriteString(seq(i))
			}
			return preflightReq("https://a.example.com", "PUT", []string{sb.String()}, false)
		}},
		kind{"preflight, n ACRH field lines with distinct sorted short names", true, func(n int) Req {
			v := make([]string, n)
			for i := range v {
				v[i] = seq(i)
			}
			return preflightReq("https://a.example.com", "GET", v, false)
		}})
	// n ALLOWED names, sorted, as a browser lists them (only meaningful with the large-lists configuration; elsewhere a rejected list)
	c18Reqs = append(c18Reqs,
		kind{"preflight, ACRH listing the first n of 1100 configured names on one line", true, func(n int) Req {
			return preflightReq("https://a.example.com", "PUT", []string{strings.Join(c18ManyNames("x-h", min(n, 1100)), ",")}, false)
		}},
		kind{"preflight, ACRH listing the first n of 1100 configured names, one per field line", true, func(n int) Req {
			return preflightReq("https://a.example.com", "PUT", c18ManyNames("x-h", min(n, 1100)), false)
		}},
		kind{"preflight, ACRM = the n-th of 300 configured methods", true, func(n int) Req {
			return preflightReq("https://a.example.com", fmt.Sprintf("M%04d", min(n, 299)), []string{"x-h0001"}, false)
		}},
		kind{"actual GET from the n-th of 300 configured tenant origins", true, func(n int) Req {
			return actualReq("GET", fmt.Sprintf("https://tenant%04d.example.org", min(n, 299)))
		}})
	// n field lines of the single-valued request headers, the later lines being copies / case variants / junk
	// (lesson of seeded change C18-ka: comparing every further Origin line with the first, allocating per line)
	for _, variant := range []string{"same", "upper", "alternating-case", "other-allowed", "junk"} {
		variant := variant
		line := func(first string, i int) string {
			switch variant {
			case "upper":
				return strings.ToUpper(first)
			case "alternating-case":
				if i%2 == 1 {
					return strings.ToUpper(first)
				}
				return first
			case "other-allowed":
				return strings.Replace(first, "a.example", "b"+seq(i)+".example", 1)
			case "junk":
				return "JUNK " + seq(i)
			}
			return first
		}
		lines := func(first string, n int) []string {
			v := make([]string, n)
			for i := range v {
				v[i] = first
				if i > 0 {
					v[i] = line(first, i)
				}
			}
			return v
		}
		c18Reqs = append(c18Reqs,
			kind{fmt.Sprintf("actual GET, n Origin field lines (%s)", variant), true, func(n int) Req {
				return Req{Method: "GET", Header: map[string][]string{hOrigin: lines("https://a.example.com", n)}}
			}},
			kind{fmt.Sprintf("preflight, n Origin field lines (%s)", variant), true, func(n int) Req {
				return Req{Method: "OPTIONS", Header: map[string][]string{hOrigin: lines("https://a.example.com", n), hACRM: {"PUT"}, hACRH: {"x-listed-1"}}}
			}},
			kind{fmt.Sprintf("preflight, n ACRM field lines (%s)", variant), true, func(n int) Req {
				return Req{Method: "OPTIONS", Header: map[string][]string{hOrigin: {"https://a.example.com"}, hACRM: lines("put", n), hACRH: {"x-listed-1"}}}
			}},
			kind{fmt.Sprintf("preflight, n ACRPN field lines (%s)", variant), true, func(n int) Req {
				return Req{Method: "OPTIONS", Header: map[string][]string{hOrigin: {"https://a.example.com"}, hACRM: {"PUT"}, hACRPN: lines("true", n)}}
			}})
	}
	// Origins are capped at a few hundred bytes: label-count families with fine-grained small sizes
	for _, lab := range []string{"a.", "xn--9ca.", "xn--bcher-kva.", "1.", "a-b.", "x_y.", "abcdefghij."} {
		lab := lab
		c18Reqs = append(c18Reqs, struct {
			name     string
			elements bool
			mk       func(n int) Req
		}{fmt.Sprintf("actual GET, allowed Origin with n labels %q (fine sizes)", lab), true, func(n int) Req {
			return actualReq("GET", "https://"+strings.Repeat(lab, n)+"example.com")
		}}, struct {
			name     string
			elements bool
			mk       func(n int) Req
		}{fmt.Sprintf("preflight, allowed Origin with n labels %q (fine sizes)", lab), true, func(n int) Req {
			return preflightReq("https://"+strings.Repeat(lab, n)+"example.com", "PUT", []string{"x-listed-1"}, false)
		}}, struct {
			name     string
			elements bool
			mk       func(n int) Req
		}{fmt.Sprintf("actual GET, refused Origin with n labels %q (fine sizes)", lab), true, func(n int) Req {
			return actualReq("GET", "https://"+strings.Repeat(lab, n)+"other.org")
		}})
	}
	for _, b := range []string{"M", "m", "\xff", " "} {
		b := b
		c18Reqs = append(c18Reqs, struct {
			name     string
			elements bool
			mk       func(n int) Req
		}{fmt.Sprintf("preflight, ACRM of n bytes %q", b), false, func(n int) Req {
			return preflightReq("https://a.example.com", strings.Repeat(b, n), []string{"x-listed-1"}, false)
		}}, struct {
			name     string
			elements bool
			mk       func(n int) Req
		}{fmt.Sprintf("actual GET, Origin https://a.example.com + n bytes %q", b), false, func(n int) Req {
			return actualReq("GET", "https://a.example.com"+strings.Repeat(b, n))
		}}, struct {
			name     string
			elements bool
			mk       func(n int) Req
		}{fmt.Sprintf("preflight, Origin with n bytes %q before an allowed suffix", b), false, func(n int) Req {
			return preflightReq("https://"+strings.Repeat(b, n)+".example.com", "PUT", nil, false)
		}})
	}
}

// c18Partner: an ordinary browser preflight (allowed by most configuration kinds) that alternates with the sized request
var c18Partner = preflightReq("https://partner.example.com", "PUT", []string{"x-listed-1"}, false).httpReq()

// c18PresetHeaders: what an outer layer may have put into the response before the CORS middleware runs (never written to)
var c18PresetHeaders = map[string][]string{
	hVary: {"Accept-Encoding"}, hACAO: {"https://outer.example"}, hACAC: {"true"}, hACAM: {"OUTER"}, hACAH: {"x-outer"},
	hACMA: {"5"}, hACEH: {"x-outer-exposed"}, hACAPN: {"true"}, "Content-Type": {"text/plain"},
}

const (
	c18Ceiling = 10 // absolute bound on allocations per request (today: 0-2)
	c18Slack   = 3  // tolerated difference between the smallest sizes and any other size (different paths differ by small constants)
)

func TestVerif_C18(t *testing.T) {
	r := newRun(t, "C18")
	r.Rule("configuration kinds {allow-all, discrete, `*` headers anonymous, anonymous+authorization, credentialed, PNA, PNA no-cors, large lists (300 origins / 300 methods / 1100 request headers / 300 exposed headers)} x debug off/on x 97 request kinds (incl. label-count families of the Origin - plain, A-label, numeric, hyphen, underscore - at 12 fine-grained sizes below the Origin length cap), each with one attacker-sized field (Origin bytes / labels / field lines - copies, case variants, other allowed origins, junk -, ACRM bytes / field lines, ACRPN field lines, ACRH bytes / elements / distinct sorted well-formed names / empty elements / OWS run / field lines; list elements and bytes drawn from lower-case, mixed-case, upper-case, non-token, non-ASCII, padded and long templates) x sizes 1..10^5 bytes and 1..10^4 elements (quick) or 14 sizes up to 10^6 bytes and 11 up to 10^5 elements (thorough). " +
		"Each cell is measured four times (the fourth as an HTTP/2 request with a body, the asterisk-form target and Host equal to its own origin): the sized request repeated, the sized request alternating with an ordinary browser preflight (state carried from request to request), and the sized request with Vary and every Access-Control-* response header pre-set by an outer layer. evaluation = one AllocsPerRun measurement (runs+1 ServeHTTP calls or pairs) with a reusable minimal writer and a no-op handler on the plain build; oracle: allocations <= " + fmt.Sprint(c18Ceiling) + " at every size and allocations at any size <= (maximum over the two smallest sizes) + " + fmt.Sprint(c18Slack) + ". non-trivial = measurement at size >= 100, distinct by construction")
	r.Assume("the harness's writer, handler and pre-built request allocate nothing per call; GOMAXPROCS(1) during the measurement (testing.AllocsPerRun)")
	if r.Variant != "plain" {
		r.Assume("NOTE: measured on a non-plain build variant; counts include instrumentation")
	}
	byteSizes := []int{1, 10, 100, 1000, 10000, 100000}
	elemSizes := []int{1, 10, 100, 1000, 10000}
	if r.Thor {
		byteSizes = []int{1, 2, 5, 10, 30, 100, 254, 327, 1000, 4096, 10000, 65536, 100000, 1000000}
		elemSizes = []int{1, 2, 3, 10, 16, 17, 18, 100, 1000, 10000, 100000}
	}
	var rc c18Case
	replay := r.LoadReplay(nil, &rc)
	l := r.newLocal(0)
	dist := map[string]int64{}
	for _, cc := range c18Cfgs {
		for _, dbg := range []bool{false, true} {
			mw, err := cors.NewMiddleware(cc.cfg)
			if err != nil {
				r.Violate("valid-rejected", "allocs", fmt.Sprintf("configuration %s rejected: %v", cc.name, err), c18Case{Config: cc.name})
				continue
			}
			mw.SetDebug(dbg)
			h := mw.Wrap(noopHandler{})
			for _, rk := range c18Reqs {
				if replay && (rc.Config != cc.name || rc.Debug != dbg || rc.Req != rk.name) {
					continue
				}
				sizes := byteSizes
				if rk.elements {
					sizes = elemSizes
				}
				if strings.Contains(rk.name, "(fine sizes)") {
					sizes = []int{1, 2, 3, 5, 8, 12, 16, 20, 24, 28, 40, 60}
				}
				smallMax, smallMaxI, smallMaxP, smallMaxV := -1.0, -1.0, -1.0, -1.0
				allocsV := make([]float64, len(sizes)) // HTTP/2 + body + asterisk target + Host = own origin
				allocsP := make([]float64, len(sizes)) // response headers pre-set by an outer layer
				allocs := make([]float64, len(sizes))
				allocsI := make([]float64, len(sizes)) // the sized request ALTERNATING with an ordinary browser preflight
				for si, n := range sizes {
					req := rk.mk(n).httpReq()
					w := &reusableWriter{h: make(http.Header, 8)}
					runs := 12
					if n >= 100000 {
						runs = 3
					}
					l.cur = func() any { return c18Case{cc.name, dbg, rk.name, n} }
					a := testing.AllocsPerRun(runs, func() {
						clear(w.h)
						h.ServeHTTP(w, req)
					})
					allocs[si] = a
					// state carried from one request to the next (lesson of seeded change C18-h: a memo of the last
					// request, missed - and refilled with attacker-sized data - whenever requests alternate)
					ai := testing.AllocsPerRun(runs, func() {
						clear(w.h)
						h.ServeHTTP(w, c18Partner)
						clear(w.h)
						h.ServeHTTP(w, req)
					})
					allocsI[si] = ai
					// response headers pre-set by an outer layer (lesson of seeded change C18-i: a merge-instead-of-overwrite
					// path taken only when Access-Control-Allow-Headers / -Methods are already present)
					ap := testing.AllocsPerRun(runs, func() {
						clear(w.h)
						for k, v := range c18PresetHeaders {
							w.h[k] = v
						}
						h.ServeHTTP(w, req)
					})
					allocsP[si] = ap
					// the same request as an HTTP/2 request with a body, the asterisk-form target and Host = its own origin
					// (lesson of seeded change C18-o: a code path taken only for another protocol version)
					// ... sent by a browser that deems the target a private-network one: preflights carry ACRPN: true
					// (lesson of seeded change C18-q: a slow copy path taken when two response headers share the `true` singleton)
					qv := rk.mk(n)
					if _, has := qv.Header[hACRPN]; !has && qv.Method == "OPTIONS" && len(qv.Header[hACRM]) > 0 {
						qv = qv.clone()
						qv.Header[hACRPN] = []string{"true"}
					}
					reqV := qv.httpReqVariant(89)
					av := testing.AllocsPerRun(runs, func() {
						clear(w.h)
						h.ServeHTTP(w, reqV)
					})
					allocsV[si] = av
					if si < 2 && av > smallMaxV {
						smallMaxV = av
					}
					dist[fmt.Sprintf("allocs_per_request_other_protocol_%02d", int(av))]++
					l.evals += 4
					if n >= 100 {
						l.nontrivN += 4
					}
					if si < 2 && ap > smallMaxP {
						smallMaxP = ap
					}
					dist[fmt.Sprintf("allocs_per_request_with_preset_headers_%02d", int(ap))]++
					if si < 2 && a > smallMax {
						smallMax = a
					}
					if si < 2 && ai > smallMaxI {
						smallMaxI = ai
					}
					dist[fmt.Sprintf("allocs_per_request_%02d", int(a))]++
					dist[fmt.Sprintf("allocs_per_alternating_pair_%02d", int(ai))]++
				}
				for si, n := range sizes {
					av := allocsV[si]
					if av > c18Ceiling {
						r.Violate("allocs-above-ceiling-other-protocol", "allocs", fmt.Sprintf("%s, debug=%v, %s as an HTTP/2 request with a body, target `*` and Host = its origin, size %d: %.0f allocations per request (ceiling %d); by size %v: %v", cc.name, dbg, rk.name, n, av, c18Ceiling, sizes, allocsV), c18Case{cc.name, dbg, rk.name, n})
						break
					}
					if av > smallMaxV+c18Slack {
						r.Violate("allocs-grow-with-size-other-protocol", "allocs", fmt.Sprintf("%s, debug=%v, %s as an HTTP/2 request with a body, target `*` and Host = its origin: %.0f allocations per request at size %d vs at most %.0f at the two smallest sizes; by size %v: %v", cc.name, dbg, rk.name, av, n, smallMaxV, sizes, allocsV), c18Case{cc.name, dbg, rk.name, n})
						break
					}
				}
				for si, n := range sizes {
					ap := allocsP[si]
					if ap > 2*c18Ceiling {
						r.Violate("allocs-above-ceiling-preset", "allocs", fmt.Sprintf("%s, debug=%v, %s with response headers pre-set by an outer layer, size %d: %.0f allocations per request (ceiling %d); by size %v: %v", cc.name, dbg, rk.name, n, ap, 2*c18Ceiling, sizes, allocsP), c18Case{cc.name, dbg, rk.name, n})
						break
					}
					if ap > smallMaxP+c18Slack {
						r.Violate("allocs-grow-with-size-preset", "allocs", fmt.Sprintf("%s, debug=%v, %s with response headers pre-set by an outer layer: %.0f allocations per request at size %d vs at most %.0f at the two smallest sizes; by size %v: %v", cc.name, dbg, rk.name, ap, n, smallMaxP, sizes, allocsP), c18Case{cc.name, dbg, rk.name, n})
						break
					}
				}
				for si, n := range sizes {
					ai := allocsI[si]
					if ai > 2*c18Ceiling {
						r.Violate("allocs-above-ceiling-alternating", "allocs", fmt.Sprintf("%s, debug=%v, %s alternating with an ordinary preflight, size %d: %.0f allocations per pair of requests (ceiling %d); by size %v: %v", cc.name, dbg, rk.name, n, ai, 2*c18Ceiling, sizes, allocsI), c18Case{cc.name, dbg, rk.name, n})
						break
					}
					if ai > smallMaxI+c18Slack {
						r.Violate("allocs-grow-with-size-alternating", "allocs", fmt.Sprintf("%s, debug=%v, %s alternating with an ordinary preflight: %.0f allocations per pair of requests at size %d vs at most %.0f at the two smallest sizes; by size %v: %v", cc.name, dbg, rk.name, ai, n, smallMaxI, sizes, allocsI), c18Case{cc.name, dbg, rk.name, n})
						break
					}
				}
				for si, n := range sizes {
					a := allocs[si]
					if a > c18Ceiling {
						r.Violate("allocs-above-ceiling", "allocs", fmt.Sprintf("%s, debug=%v, %s, size %d: %.0f allocations per request (ceiling %d); by size %v: %v", cc.name, dbg, rk.name, n, a, c18Ceiling, sizes, allocs), c18Case{cc.name, dbg, rk.name, n})
						break
					}
					if a > smallMax+c18Slack {
						r.Violate("allocs-grow-with-size", "allocs", fmt.Sprintf("%s, debug=%v, %s: %.0f allocations per request at size %d vs at most %.0f at the two smallest sizes; by size %v: %v", cc.name, dbg, rk.name, a, n, smallMax, sizes, allocs), c18Case{cc.name, dbg, rk.name, n})
						break
					}
				}
				if cc.name == "discrete" && !dbg && len(r.samples) < 6 {
					r.Sample("measurement", map[string]any{"config": cc.name, "debug": dbg, "request": rk.name, "sizes": sizes, "allocs_per_request": allocs})
				}
			}
		}
	}
	for k, v := range dist {
		l.counters[k] = v
	}
	r.merge(l)
	r.Set("sizes_bytes", byteSizes)
	r.Set("sizes_elements", elemSizes)
	r.Set("ceiling", c18Ceiling)
	r.Exhaustive("the full grid of configuration kind x debug x request kind x size")
	_ = runtime.GOMAXPROCS
	r.Finish(100)
}
