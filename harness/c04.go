//go:build verif

package verifharness_test

import (
	"fmt"
	"math/rand/v2"
	"strconv"
	"strings"
	"testing"

	"github.com/jub0bs/cors"
)

// Necessary conditions of the documented grammars, for *arbitrary* strings.
// These recognisers are deliberately weaker than the grammar (they tolerate the
// grey zones listed in DESIGN.md): "accepted => recognised" is sound.

func recogOriginPattern(s string) (bool, string) {
	if s == "*" {
		return true, ""
	}
	if s == "null" {
		return false, "null origin"
	}
	i := strings.Index(s, "://")
	if i <= 0 {
		return false, "no scheme://"
	}
	scheme, rest := s[:i], s[i+3:]
	if len(scheme) > 64 {
		return false, "scheme longer than 64 bytes"
	}
	if scheme == "file" {
		return false, "file scheme"
	}
	if scheme[0] < 'a' || scheme[0] > 'z' {
		return false, "scheme does not start with a lower-case letter"
	}
	for k := 1; k < len(scheme); k++ {
		c := scheme[k]
		if !(c >= 'a' && c <= 'z' || c >= '0' && c <= '9' || c == '+' || c == '-' || c == '.' || c == '_') {
			return false, "scheme byte " + strconv.Quote(string(c))
		}
	}
	var host, port string
	hasPort := false
	if strings.HasPrefix(rest, "[") {
		end := strings.IndexByte(rest, ']')
		if end < 0 {
			return false, "unmatched bracket"
		}
		host = rest[:end+1]
		after := rest[end+1:]
		if after != "" {
			if after[0] != ':' {
				return false, "garbage after IPv6 literal"
			}
			hasPort, port = true, after[1:]
		}
		for k := 1; k < len(host)-1; k++ {
			c := host[k]
			if !(c >= '0' && c <= '9' || c >= 'a' && c <= 'f' || c == ':' || c == '.') {
				return false, "IPv6 literal byte " + strconv.Quote(string(c))
			}
		}
		if len(host) < 4 {
			return false, "IPv6 literal too short"
		}
		if strings.Contains(host, ".") {
			return false, "IPv4-mapped / dotted IPv6 literal"
		}
	} else {
		if j := strings.IndexByte(rest, ':'); j >= 0 {
			host, port, hasPort = rest[:j], rest[j+1:], true
		} else {
			host = rest
		}
		h := host
		if strings.HasPrefix(h, "*.") {
			h = h[2:]
			if len(h) > 251+1 || (len(h) == 252 && !strings.HasSuffix(h, ".")) {
				return false, "wildcard base longer than 251 bytes"
			}
		}
		if h == "" {
			return false, "empty host"
		}
		if h[0] == '.' || strings.Contains(h, "..") {
			return false, "empty label"
		}
		for k := 0; k < len(h); k++ {
			c := h[k]
			if !(c >= 'a' && c <= 'z' || c >= '0' && c <= '9' || c == '-' || c == '_' || c == '.') {
				return false, "host byte " + strconv.Quote(string(c))
			}
		}
		if len(strings.TrimSuffix(h, ".")) > 253 {
			return false, "host longer than 253 bytes"
		}
		for _, lab := range strings.Split(strings.TrimSuffix(h, "."), ".") {
			if len(lab) > 63 {
				return false, "label longer than 63 bytes"
			}
		}
		// a wildcard before an IPv4 address
		if strings.HasPrefix(host, "*.") {
			labs := strings.Split(strings.TrimSuffix(h, "."), ".")
			last := labs[len(labs)-1]
			if last != "" && last[0] >= '0' && last[0] <= '9' {
				return false, "wildcard before an IP address"
			}
		}
	}
	if hasPort {
		if port == "*" {
			return true, ""
		}
		if port == "" || len(port) > 5 || port[0] == '0' {
			return false, "port syntax"
		}
		for k := 0; k < len(port); k++ {
			if port[k] < '0' || port[k] > '9' {
				return false, "port syntax"
			}
		}
		n, _ := strconv.Atoi(port)
		if n < 1 || n > 65535 {
			return false, "port out of range"
		}
		if scheme == "http" && n == 80 || scheme == "https" && n == 443 {
			return false, "default port"
		}
	}
	return true, ""
}

func isToken(s string) bool {
	if s == "" {
		return false
	}
	for i := 0; i < len(s); i++ {
		c := s[i]
		switch {
		case c >= 'a' && c <= 'z', c >= 'A' && c <= 'Z', c >= '0' && c <= '9':
		case strings.IndexByte("!#$%&'*+-.^_`|~", c) >= 0:
		default:
			return false
		}
	}
	return true
}

func recogMethod(s string) (bool, string) {
	if !isToken(s) {
		return false, "not a token"
	}
	switch asciiUpper(s) {
	case "CONNECT", "TRACE", "TRACK":
		return false, "forbidden method"
	}
	return true, ""
}

var forbiddenReqNames = map[string]bool{"accept-charset": true, "accept-encoding": true, "access-control-request-headers": true,
	"access-control-request-method": true, "connection": true, "content-length": true, "cookie": true, "cookie2": true, "date": true,
	"dnt": true, "expect": true, "host": true, "keep-alive": true, "origin": true, "referer": true, "set-cookie": true, "te": true,
	"trailer": true, "transfer-encoding": true, "upgrade": true, "via": true}
var prohibitedReqNames = map[string]bool{"access-control-allow-credentials": true, "access-control-allow-headers": true,
	"access-control-allow-methods": true, "access-control-allow-origin": true, "access-control-allow-private-network": true,
	"access-control-expose-headers": true, "access-control-max-age": true}
var prohibitedRespNames = map[string]bool{"access-control-request-headers": true, "access-control-request-method": true,
	"access-control-request-private-network": true, "origin": true}

func recogReqHeader(s string) (bool, string) {
	if !isToken(s) {
		return false, "not a token"
	}
	l := asciiLower(s)
	if forbiddenReqNames[l] || strings.HasPrefix(l, "proxy-") || strings.HasPrefix(l, "sec-") {
		return false, "forbidden request-header name"
	}
	if prohibitedReqNames[l] {
		return false, "prohibited request-header name"
	}
	return true, ""
}

func recogRespHeader(s string, cred bool) (bool, string) {
	if s == "*" && cred {
		return false, "`*` with credentials"
	}
	if !isToken(s) {
		return false, "not a token"
	}
	l := asciiLower(s)
	if l == "set-cookie" || l == "set-cookie2" {
		return false, "forbidden response-header name"
	}
	if prohibitedRespNames[l] {
		return false, "prohibited response-header name"
	}
	return true, ""
}

// recogConfig: necessary conditions for acceptance of an arbitrary Config.
func recogConfig(cfg *cors.Config) (bool, string) {
	if len(cfg.Origins) == 0 {
		return false, "no origin pattern"
	}
	pna := cfg.PrivateNetworkAccess || cfg.PrivateNetworkAccessInNoCORSModeOnly
	if cfg.PrivateNetworkAccess && cfg.PrivateNetworkAccessInNoCORSModeOnly {
		return false, "both PNA modes"
	}
	for _, o := range cfg.Origins {
		if ok, why := recogOriginPattern(o); !ok {
			return false, fmt.Sprintf("origin pattern %q: %s", o, why)
		}
		if o == "*" && (cfg.Credentialed || pna) {
			return false, "`*` origin with credentials or PNA"
		}
		if o != "*" && (cfg.Credentialed || pna) && !cfg.DangerouslyTolerateInsecureOrigins {
			// insecure: scheme not https and host neither localhost nor loopback. Only the clear-cut case is demanded.
			i := strings.Index(o, "://")
			scheme, rest := o[:i], o[i+3:]
			h := rest
			if !strings.HasPrefix(h, "[") {
				if j := strings.IndexByte(h, ':'); j >= 0 {
					h = h[:j]
				}
			}
			h = strings.TrimPrefix(h, "*.")
			loopbackish := strings.HasPrefix(h, "127.") || strings.HasPrefix(h, "[::1]") || strings.Contains(h, "localhost")
			if scheme != "https" && !loopbackish {
				return false, fmt.Sprintf("insecure origin pattern %q with credentials/PNA", o)
			}
		}
	}
	for _, m := range cfg.Methods {
		if m == "*" {
			continue
		}
		if ok, why := recogMethod(m); !ok {
			return false, fmt.Sprintf("method %q: %s", m, why)
		}
	}
	for _, h := range cfg.RequestHeaders {
		if h == "*" {
			continue
		}
		if ok, why := recogReqHeader(h); !ok {
			return false, fmt.Sprintf("request-header name %q: %s", h, why)
		}
	}
	for _, h := range cfg.ResponseHeaders {
		if ok, why := recogRespHeader(h, cfg.Credentialed); !ok {
			return false, fmt.Sprintf("response-header name %q: %s", h, why)
		}
	}
	if cfg.MaxAgeInSeconds < -1 || cfg.MaxAgeInSeconds > 86400 {
		return false, "max-age out of bounds"
	}
	if s := cfg.PreflightSuccessStatus; s != 0 && (s < 200 || s > 299) {
		return false, "status out of bounds"
	}
	return true, ""
}

type c04Case struct {
	Spec   *CfgSpec       `json:"spec,omitempty"`
	Config map[string]any `json:"config,omitempty"`
	Entry  string         `json:"entry"`
	Note   string         `json:"note,omitempty"` // "first-call...": witnessed as the first library call of a fresh process
}

func cfgFromJSON(m map[string]any) cors.Config {
	var cfg cors.Config
	strs := func(k string) []string {
		v, _ := m[k].([]any)
		if v == nil {
			return nil
		}
		out := make([]string, len(v))
		for i := range v {
			out[i], _ = v[i].(string)
		}
		return out
	}
	num := func(k string) int {
		f, _ := m[k].(float64)
		return int(f)
	}
	b := func(k string) bool { v, _ := m[k].(bool); return v }
	cfg.Origins, cfg.Methods, cfg.RequestHeaders, cfg.ResponseHeaders = strs("Origins"), strs("Methods"), strs("RequestHeaders"), strs("ResponseHeaders")
	cfg.Credentialed = b("Credentialed")
	cfg.MaxAgeInSeconds, cfg.PreflightSuccessStatus = num("MaxAgeInSeconds"), num("PreflightSuccessStatus")
	cfg.PrivateNetworkAccess, cfg.PrivateNetworkAccessInNoCORSModeOnly = b("PrivateNetworkAccess"), b("PrivateNetworkAccessInNoCORSModeOnly")
	cfg.DangerouslyTolerateInsecureOrigins, cfg.DangerouslyTolerateSubdomainsOfPublicSuffixes = b("DangerouslyTolerateInsecureOrigins"), b("DangerouslyTolerateSubdomainsOfPublicSuffixes")
	return cfg
}

func c04RunSpec(r *Run, l *Local, c *CfgSpec, entry string) {
	want := c.violations()
	cfg := c.Config()
	l.cur = func() any { return c04Case{Spec: c, Entry: entry} }
	mw, err := buildVia(entry, cfg)
	l.Eval()
	if len(want) > 0 {
		l.n1++
		if err == nil {
			r.Violate("invalid-accepted", "S4-soundness", fmt.Sprintf("configuration violating %v accepted via %s | %s", keysOf(want), entry, cfgString(&cfg)), c04Case{Spec: c, Entry: entry})
		}
	} else {
		l.n2++
	}
	if entry == "new" && err != nil && mw != nil {
		r.Violate("non-nil-middleware-with-error", "S4-soundness", fmt.Sprintf("NewMiddleware returned a non-nil *Middleware with error %v", err), c04Case{Spec: c, Entry: entry})
	}
	if entry == "new" && err == nil && mw == nil {
		r.Violate("nil-middleware-without-error", "S4-soundness", "NewMiddleware returned (nil, nil)", c04Case{Spec: c, Entry: entry})
	}
}

func c04RunRaw(r *Run, l *Local, cfg cors.Config, entry string) {
	l.cur = func() any { return c04Case{Config: cfgJSON(&cfg), Entry: entry} }
	mw, err := buildVia(entry, cfg)
	l.Eval()
	ok, why := recogConfig(&cfg)
	if !ok {
		l.n1++
	} else {
		l.n2++
	}
	if err == nil && !ok {
		r.Violate("junk-accepted", "grammar-recogniser", fmt.Sprintf("accepted via %s although %s | %s", entry, why, cfgString(&cfg)), c04Case{Config: cfgJSON(&cfg), Entry: entry})
	}
	if err == nil {
		l.counters["junk_configs_accepted"]++
	}
	if entry == "new" && err != nil && mw != nil {
		r.Violate("non-nil-middleware-with-error", "grammar-recogniser", fmt.Sprintf("NewMiddleware returned a non-nil *Middleware with error %v", err), c04Case{Config: cfgJSON(&cfg), Entry: entry})
	}
}

var junkFragments = []string{"https", "http", "file", "://", ":", "*", "*.", ".", "example.com", "com", "localhost", "127.0.0.1", "[::1]", "[", "]", "8080", "80", "443", "0", "65535", "65536",
	"/", "?", "#", "@", " ", "\t", "\x00", "é", "A", "xn--", "-", "_", "null", ",", "%", "1", "a", strings.Repeat("a", 63), strings.Repeat("b", 64), "::", "0x7f", "ffff:", "1.2.3.4"}

func mutateBytes(rng *rand.Rand, s string) string {
	b := []byte(s)
	for k := 1 + rng.IntN(3); k > 0; k-- {
		switch rng.IntN(6) {
		case 0: // insert fragment
			p := rng.IntN(len(b) + 1)
			f := choose(rng, junkFragments)
			b = append(b[:p], append([]byte(f), b[p:]...)...)
		case 1: // delete span
			if len(b) > 0 {
				p := rng.IntN(len(b))
				q := min(len(b), p+1+rng.IntN(4))
				b = append(b[:p], b[q:]...)
			}
		case 2: // replace byte
			if len(b) > 0 {
				b[rng.IntN(len(b))] = byte(rng.IntN(256))
			}
		case 3: // duplicate span
			if len(b) > 0 {
				p := rng.IntN(len(b))
				q := min(len(b), p+1+rng.IntN(6))
				b = append(b[:q], append(append([]byte{}, b[p:q]...), b[q:]...)...)
			}
		case 4: // flip case
			if len(b) > 0 {
				p := rng.IntN(len(b))
				if b[p] >= 'a' && b[p] <= 'z' {
					b[p] -= 32
				} else if b[p] >= 'A' && b[p] <= 'Z' {
					b[p] += 32
				}
			}
		case 5: // swap two bytes
			if len(b) > 1 {
				p, q := rng.IntN(len(b)), rng.IntN(len(b))
				b[p], b[q] = b[q], b[p]
			}
		}
	}
	return string(b)
}

func junkString(rng *rand.Rand, seeds []string) string {
	switch rng.IntN(4) {
	case 0:
		var sb strings.Builder
		for k := rng.IntN(7); k > 0; k-- {
			sb.WriteString(choose(rng, junkFragments))
		}
		return sb.String()
	case 1:
		b := make([]byte, rng.IntN(12))
		for i := range b {
			b[i] = byte(rng.IntN(256))
		}
		return string(b)
	default:
		return mutateBytes(rng, choose(rng, seeds))
	}
}

func TestVerif_C04(t *testing.T) {
	r := newRun(t, "C04")
	r.Rule("soundness of acceptance: (a) configurations from labelled atoms with >= 1 documented violation (single-atom sweeps under all switch combinations, stratified multi-violation mixes, all entry points) must be rejected, a non-nil error must come with a nil *Middleware; " +
		"(b) arbitrary junk (fragment assembly, random bytes, byte-level mutations of valid and invalid atoms, boundary integers) - whatever is accepted must satisfy a recogniser of necessary conditions of the documented grammar. " +
		"non-trivial = configuration carrying at least one violation (a) or failing the recogniser (b); distinct by hash of the Config literal + entry point")
	r.Assume("atom labels are correct by construction; the junk recogniser only demands necessary conditions and tolerates the undocumented grey zones (`_`, https+IP, hyphen positions, localhost-like hosts)")

	var rc c04Case
	if r.LoadReplay(nil, &rc) {
		l := r.newLocal(0)
		if rc.Spec != nil && strings.HasPrefix(rc.Note, "first-call") {
			cs := c05Case{rc.Spec, rc.Entry, rc.Note}
			if key, monitor, msg, ok := runInFreshProcess(cs); ok && (key == "invalid-accepted" || key == "non-nil-middleware-with-error") {
				r.Violate(key, monitor, "as the first library call of a fresh process: "+msg, cs)
			}
		}
		if rc.Spec != nil {
			c04RunSpec(r, l, rc.Spec, rc.Entry)
		} else {
			c04RunRaw(r, l, cfgFromJSON(rc.Config), rc.Entry)
		}
		r.merge(l)
		r.Finish(0)
		return
	}

	// ---- (a1) every invalid / conditional atom alone and inside lists, under every switch combination
	allBadOrigins := append(append(append(append([]OAtom{oStarAtom}, insecureOriginAtoms...), pslOriginAtoms...), invalidOriginAtoms...), secureOriginAtoms...)
	type sw struct {
		cred       bool
		pna        int
		tolI, tolP bool
	}
	var switches []sw
	for _, cred := range []bool{false, true} {
		for _, pna := range []int{pnaOff, pnaOn, pnaNoCors, pnaBoth} {
			for _, ti := range []bool{false, true} {
				for _, tp := range []bool{false, true} {
					switches = append(switches, sw{cred, pna, ti, tp})
				}
			}
		}
	}
	r.Parallel(len(switches), func(l *Local) {
		s := switches[l.Batch]
		for _, entry := range entries {
			mk := func() *CfgSpec {
				return &CfgSpec{Cred: s.cred, PNA: s.pna, TolInsecure: s.tolI, TolPSL: s.tolP, Origins: []OAtom{secureOriginAtoms[0]}}
			}
			// no origin pattern at all: nil and empty non-nil lists, alone and with other fields filled in
			for _, nonNil := range []bool{false, true} {
				c := mk()
				c.Origins, c.NonNilEmpty = nil, nonNil
				c04RunSpec(r, l, c, entry)
				l.NontrivialKey(specKey(c), entry, fmt.Sprint(nonNil))
				c = mk()
				c.Origins, c.NonNilEmpty = nil, nonNil
				c.Methods, c.ReqHdrs, c.MaxAge = []MAtom{validMethodAtoms[0]}, []HAtom{validReqHdrAtoms[0]}, 600
				c04RunSpec(r, l, c, entry)
			}
			relPool := allValidKindOriginAtoms()
			if s.tolP {
				relPool = append(relPool, contextOriginAtoms...)
			}
			for _, a := range allBadOrigins {
				// neighbours: one fixed unrelated pattern, and every pattern of the tables that covers / is covered by a
				fillers := append([]OAtom{secureOriginAtoms[3]}, relatedOriginAtoms(a, relPool)...)
				for fi, filler := range fillers {
					for _, shape := range [][]int{{0}, {1, 0}, {0, 1}, {1, 1, 0}, {1, 0, 1}, {0, 0}} {
						if fi > 0 && (len(shape) == 1 || shape[0] == shape[len(shape)-1] && len(shape) == 2) {
							continue // shapes without a neighbour were run with the first filler
						}
						c := mk()
						c.Origins = nil
						for _, k := range shape {
							if k == 0 {
								c.Origins = append(c.Origins, a)
							} else {
								c.Origins = append(c.Origins, filler)
							}
						}
						c04RunSpec(r, l, c, entry)
						if len(c.violations()) > 0 {
							l.NontrivialKey(specKey(c), entry)
						}
					}
				}
			}
			for _, a := range append(append([]MAtom{}, forbiddenMethodAtoms...), invalidMethodAtoms...) {
				for _, lst := range [][]MAtom{{a}, {validMethodAtoms[0], a}, {a, mStarAtom}, {mStarAtom, a}, {safelistedMethodAtoms[0], a, validMethodAtoms[1]}} {
					c := mk()
					c.Methods = lst
					c04RunSpec(r, l, c, entry)
					l.NontrivialKey(specKey(c), entry)
				}
			}
			for _, a := range append(append(append([]HAtom{}, forbiddenReqHdrAtoms...), prohibitedReqHdrAtoms...), invalidHdrAtoms...) {
				for _, lst := range [][]HAtom{{a}, {validReqHdrAtoms[0], a}, {a, hStarAtom}, {hStarAtom, a}, {authReqHdrAtoms[0], a, validReqHdrAtoms[1]}} {
					c := mk()
					c.ReqHdrs = lst
					c04RunSpec(r, l, c, entry)
					l.NontrivialKey(specKey(c), entry)
				}
			}
			for _, a := range append(append(append([]HAtom{hStarAtom}, forbiddenRespHdrAtoms...), prohibitedRespHdrAtoms...), invalidHdrAtoms...) {
				for _, lst := range [][]HAtom{{a}, {validRespHdrAtoms[0], a}, {a, safelistedRespHdrAtoms[0]}, {validRespHdrAtoms[1], a, validRespHdrAtoms[2]}} {
					c := mk()
					c.RespHdrs = lst
					c04RunSpec(r, l, c, entry)
					if len(c.violations()) > 0 {
						l.NontrivialKey(specKey(c), entry)
					}
				}
			}
		}
	})
	r.Exhaustive("every conditional/invalid atom of every table in 4-6 list shapes x Credentialed x 4 PNA settings x 2 tolerate flags x 5 entry points")

	// ---- every atom alone as the FIRST library call of a fresh process (see c05.go)
	freshProcessSweep(r, "C04")

	// ---- (a2) integers: exhaustive windows around every bound
	r.Parallel(1, func(l *Local) {
		mk := func() *CfgSpec { return &CfgSpec{Origins: []OAtom{secureOriginAtoms[0]}} }
		for ma := -70000; ma <= 90000; ma++ {
			if ma > -10 && ma < 86390 && ma%997 != 0 {
				continue
			}
			c := mk()
			c.MaxAge = ma
			c04RunSpec(r, l, c, "new")
			if len(c.violations()) > 0 {
				l.nontrivN++
			}
		}
		for st := -1000; st <= 70000; st++ {
			c := mk()
			c.Status = st
			c04RunSpec(r, l, c, entries[(st+1000)%len(entries)])
			if len(c.violations()) > 0 {
				l.nontrivN++
			}
		}
		for _, k := range []int{8, 16, 31, 32, 33, 62, 63} {
			for _, d := range []int{-300, -299, -200, -1, 0, 1, 200, 204, 299, 300} {
				for _, sign := range []int{1, -1} {
					// each integer field on its own (a second violation in the other field would hide an accepted first one;
					// lesson of seeded change C04-o) and both together
					for which := 0; which < 3; which++ {
						c := mk()
						if which != 1 {
							c.Status = sign*(1<<k) + d
						}
						if which != 0 {
							c.MaxAge = sign*(1<<k) + d
						}
						c04RunSpec(r, l, c, "new")
						c04RunSpec(r, l, c, "reconf-zero")
						l.nontrivN++
					}
				}
			}
		}
	})
	r.Exhaustive("max-age in [-70000,-10] u [86390,90000] (and every 997th value between), status in [-1000,70000], +-2^k+d for k in {8,16,31,32,33,62,63} in each integer field alone and in both")

	// ---- (a3) stratified multi-violation mixes
	nb := pick(r, 64, 1024)
	per := pick(r, 2000, 10000)
	r.Parallel(nb, func(l *Local) {
		rng := l.Rng
		for i := 0; i < per; i++ {
			c, _ := randInvalidCfg(rng, 1+i%6)
			entry := entries[rng.IntN(len(entries))]
			c04RunSpec(r, l, c, entry)
			l.NontrivialKey(specKey(c), entry)
			if l.Batch == 0 && i < 2 {
				l.Sample("labelled-invalid", c04Case{Spec: c, Entry: entry})
			}
		}
	})

	// ---- (b) junk
	var oSeeds, mSeeds, hSeeds []string
	for _, a := range append(append(append(append([]OAtom{}, secureOriginAtoms...), insecureOriginAtoms...), pslOriginAtoms...), invalidOriginAtoms...) {
		if len(a.Raw) < 100 {
			oSeeds = append(oSeeds, a.Raw)
		}
	}
	for _, a := range append(append(append([]MAtom{}, validMethodAtoms...), forbiddenMethodAtoms...), invalidMethodAtoms...) {
		mSeeds = append(mSeeds, a.Raw)
	}
	for _, a := range append(append(append(append([]HAtom{}, validReqHdrAtoms...), forbiddenReqHdrAtoms...), prohibitedReqHdrAtoms...), prohibitedRespHdrAtoms...) {
		hSeeds = append(hSeeds, a.Raw)
	}
	perJ := pick(r, 6000, 40000)
	r.Parallel(nb, func(l *Local) {
		rng := l.Rng
		for i := 0; i < perJ; i++ {
			base := randValidCfg(rng)
			cfg := base.Config()
			switch rng.IntN(5) {
			case 0, 1:
				j := junkString(rng, oSeeds)
				cfg.Origins = append(cfg.Origins, j)
				if rng.IntN(2) == 0 {
					cfg.Origins = []string{j}
				}
			case 2:
				cfg.Methods = append(cfg.Methods, junkString(rng, mSeeds))
			case 3:
				cfg.RequestHeaders = append(cfg.RequestHeaders, junkString(rng, hSeeds))
			case 4:
				cfg.ResponseHeaders = append(cfg.ResponseHeaders, junkString(rng, hSeeds))
			}
			if rng.IntN(4) == 0 {
				cfg.Credentialed = !cfg.Credentialed
			}
			if rng.IntN(6) == 0 {
				cfg.PrivateNetworkAccess = !cfg.PrivateNetworkAccess
			}
			entry := entries[rng.IntN(len(entries))]
			c04RunRaw(r, l, cfg, entry)
			if ok, _ := recogConfig(&cfg); !ok {
				l.NontrivialKey(cfgString(&cfg), entry)
			}
			if l.Batch == 0 && i < 3 {
				l.Sample("junk", c04Case{Config: cfgJSON(&cfg), Entry: entry})
			}
		}
	})
	r.mu.Lock()
	r.counters["cases_with_violation"], r.counters["cases_without_violation"] = r.counters["n1"], r.counters["n2"]
	delete(r.counters, "n1")
	delete(r.counters, "n2")
	r.mu.Unlock()
	r.Finish(5000)
}
