//go:build verif

package verifharness_test

import (
	"fmt"
	"math/rand/v2"
	"sort"
	"strconv"
	"strings"
	"sync/atomic"
	"testing"

	"github.com/jub0bs/cors"
	"github.com/jub0bs/cors/internal/origins"
)

// ---------------------------------------------------------------------------
// pattern universe (DESIGN.md C01): hosts chosen to collide in the radix tree

type uPat struct {
	spec   PatSpec
	str    string
	parsed origins.Pattern
	probes []uProbe
}

type uProbe struct {
	spec   OriginSpec
	str    string
	parsed origins.Origin
}

func longHost(n int) string {
	// n-byte host made of labels of at most 63 bytes
	var sb strings.Builder
	rem := n
	for rem > 0 {
		if sb.Len() > 0 {
			sb.WriteByte('.')
			rem--
		}
		l := min(63, rem)
		if rem-l == 1 { // a 1-byte remainder could not hold "." + label
			l--
		}
		sb.WriteString(strings.Repeat("q", l))
		rem -= l
	}
	return sb.String()
}

var c01Hosts = []struct {
	host string
	ip   bool
	ip6  bool
}{
	{"com", false, false}, {"m", false, false}, {"a.com", false, false}, {"ba.com", false, false},
	{"xa.com", false, false}, {"a.a.com", false, false}, {"example.com", false, false},
	{"xample.com", false, false}, {"ample.com", false, false}, {"e.com", false, false},
	{"example.com.", false, false}, {"kin", false, false}, {"pin", false, false}, {"akin", false, false},
	{"127.0.0.1", true, false}, {"127.0.0.10", true, false}, {"::1", true, true}, {"2001:db8::1", true, true},
}

func buildUniverse(t *testing.T, hostsSel func(h string) bool, schemes []string, ports []int) []*uPat {
	var u []*uPat
	type hdesc struct {
		host    string
		ip, ip6 bool
	}
	var hs []hdesc
	for _, h := range c01Hosts {
		hs = append(hs, hdesc{h.host, h.ip, h.ip6})
	}
	l253 := longHost(253)
	hs = append(hs, hdesc{l253, false, false}, hdesc{l253[1:], false, false}, hdesc{l253 + ".", false, false}, hdesc{l253[4:] + ".", false, false})
	// hosts with as many labels as a domain name can have: 127 one-byte labels, with and without the trailing dot, and short
	// bases under which the deepest probes reach that count (lesson of seeded change C01-p: a label-count limit off by one
	// for absolute names)
	m127 := ""
	for i := 0; i < 127; i++ {
		if i > 0 {
			m127 += "."
		}
		m127 += string(rune('a' + i%26))
	}
	hs = append(hs, hdesc{m127, false, false}, hdesc{m127 + ".", false, false}, hdesc{m127[2:] + ".", false, false}, hdesc{"z.y.", false, false}, hdesc{"z.y", false, false}, hdesc{"q.z.y.", false, false})
	for _, h := range hs {
		if hostsSel != nil && !hostsSel(h.host) {
			continue
		}
		for _, sch := range schemes {
			if h.ip && sch == "https" {
				continue // grey zone: https + IP host is not judged
			}
			for _, pt := range ports {
				for _, subs := range []bool{false, true} {
					if subs && (h.ip || len(h.host) > 251 || (len(h.host) > 250 && strings.HasSuffix(h.host, "."))) {
						continue
					}
					sp := PatSpec{Scheme: sch, Subs: subs, Host: h.host, IP6: h.ip6, Port: pt}
					up, err := newUPat(sp)
					if err != nil {
						// valid by construction; that it is rejected is C13's business. C01 goes on with the rest of the
						// universe (lesson of seeded change C01-l, where the same slip also broke the request side)
						c01UniverseRejected.Add(1)
						continue
					}
					u = append(u, up)
				}
			}
		}
	}
	return u
}

// newUPat parses a pattern that is valid by construction and attaches its probes (denoted origins and near-misses).
func newUPat(sp PatSpec) (*uPat, error) {
	str := sp.String()
	parsed, err := origins.ParsePattern(str)
	if err != nil {
		return nil, err
	}
	up := &uPat{spec: sp, str: str, parsed: parsed}
	seen := map[string]bool{}
	for _, o := range probesFor(sp) {
		s := o.String()
		if seen[s] {
			continue
		}
		seen[s] = true
		po, ok := origins.Parse(s)
		if !ok {
			// a well-formed origin the request-side parser refuses: decided by the oracle
			up.probes = append(up.probes, uProbe{spec: o, str: s, parsed: origins.Origin{}})
			up.probes[len(up.probes)-1].parsed.Scheme = "\x00unparsed"
			continue
		}
		up.probes = append(up.probes, uProbe{spec: o, str: s, parsed: po})
	}
	return up, nil
}

// c01Family builds a sibling-heavy family: 9..40 hosts that differ in ONE byte directly in front of a common suffix
// (so that one radix node gets many edges), mixed with patterns that split that node or its neighbours (hosts sharing
// only part of the suffix, the base itself, `*.` patterns on the base) under several schemes and ports
// (lesson of seeded change C01-jB: per-node data that is not carried along when a node with many edges is split).
func c01Family(rng *rand.Rand) ([]*uPat, error) {
	base := choose(rng, []string{"example.com", "a.com", "com", "kin", "example.com."})
	prefix := choose(rng, []string{"", "app", "x"})
	alphabet := "abcdefghijklmnopqrstuvwxyz0123456789-"
	if prefix == "" {
		alphabet = "abcdefghijklmnopqrstuvwxyz0123456789"
	}
	k := 9 + rng.IntN(28)
	perm := rng.Perm(len(alphabet))
	var specs []PatSpec
	scheme := choose(rng, []string{"https", "http"})
	joiner := choose(rng, []string{".", ""}) // siblings one label deeper, or differing inside the base's first label
	for i := 0; i < k && i < len(perm); i++ {
		c := string(alphabet[perm[i]])
		h := prefix + c + joiner + base
		if joiner == "" && (c == "-" || prefix == "" && c == "-") {
			continue
		}
		if !wellFormedNumericHost(h) || strings.HasPrefix(h, "-") || strings.Contains(h, "-.") || strings.Contains(h, ".-") || lastLabelStartsWithDigit(h) {
			continue // (a last label starting with a digit is a grey zone: treated as an IP address)
		}
		sp := PatSpec{Scheme: scheme, Host: h}
		if rng.IntN(6) == 0 {
			sp.Port = choose(rng, []int{portAny, 8080, 1})
		}
		if rng.IntN(8) == 0 {
			sp.Scheme = "ht"
		}
		specs = append(specs, sp)
	}
	// splitters
	trimmed := strings.TrimSuffix(base, ".")
	cands := []PatSpec{
		{Scheme: scheme, Host: base}, {Scheme: scheme, Subs: true, Host: base}, {Scheme: scheme, Subs: true, Host: base, Port: portAny},
		{Scheme: scheme, Host: "partner" + base[len(base)/2:]}, {Scheme: scheme, Host: "q" + base[1:]}, {Scheme: scheme, Host: "zz." + base},
		{Scheme: scheme, Host: prefix + "." + base}, {Scheme: "httpss", Host: base, Port: 65535},
	}
	if prefix != "" {
		cands = append(cands, PatSpec{Scheme: scheme, Host: prefix[1:] + "0" + joiner + base}, PatSpec{Scheme: scheme, Subs: true, Host: prefix + "a" + joiner + base})
	}
	_ = trimmed
	nSplit := 1 + rng.IntN(3)
	var out []*uPat
	var splitters []*uPat
	for _, sp := range cands {
		if strings.HasPrefix(sp.Host, ".") || strings.Contains(sp.Host, "..") || !wellFormedNumericHost(sp.Host) || lastLabelStartsWithDigit(sp.Host) {
			continue
		}
		if up, err := newUPat(sp); err == nil {
			splitters = append(splitters, up)
		}
	}
	for _, sp := range specs {
		up, err := newUPat(sp)
		if err != nil {
			return nil, fmt.Errorf("%q: %v", sp.String(), err)
		}
		out = append(out, up)
	}
	// order: siblings first, then splitters (the order in which a split finds a node with many edges); sometimes shuffled
	spl := shuffled(rng, splitters)
	if len(spl) > nSplit {
		spl = spl[:nSplit]
	}
	switch rng.IntN(4) {
	case 0:
		out = shuffled(rng, append(out, spl...))
	case 1:
		cut := len(out) / 3
		out = append(append(append([]*uPat{}, out[:cut]...), spl...), out[cut:]...)
	default:
		out = append(out, spl...)
	}
	return out, nil
}

func lastLabelStartsWithDigit(h string) bool {
	h = strings.TrimSuffix(h, ".")
	last := h[strings.LastIndexByte(h, '.')+1:]
	return last != "" && last[0] >= '0' && last[0] <= '9'
}

var c01UniverseRejected atomic.Int64

type c01Case struct {
	Patterns []string `json:"patterns"`
	Origin   string   `json:"origin,omitempty"`
	Public   bool     `json:"public_api"`
}

// c01CheckList inserts the list into a fresh tree and compares every probe of every member with the oracle.
func c01CheckList(r *Run, l *Local, list []*uPat, public bool, extraProbes []*uPat, countNontrivial bool) {
	var tree origins.Tree
	specs := make([]PatSpec, len(list))
	strs := make([]string, len(list))
	for i, p := range list {
		pp := p.parsed
		tree.Insert(&pp)
		specs[i] = p.spec
		strs[i] = p.str
	}
	l.curA = strs
	var mw *cors.Middleware
	if public {
		var err error
		// the tolerate switch is set only where the list needs it (a `*.` pattern on a single-label host, which is a public
		// suffix by the PSL's default rule) and for half of the other lists: what a valid pattern denotes must not depend on it
		// (lesson of seeded change C01-jD: the public-suffix check rewriting the pattern it inspects)
		tol := len(strs)%2 == 0
		for _, sp := range specs {
			if sp.Subs && !strings.Contains(strings.TrimSuffix(sp.Host, "."), ".") {
				tol = true
			}
		}
		if len(strs) > 0 && len(strs)%3 == 1 {
			// the configuration in force was installed by Reconfigure with a Config object that had been used before and
			// whose Origins slice was overwritten in place in the meantime (lesson of seeded change C01-o)
			cfg := cors.Config{Origins: make([]string, len(strs)), ExtraConfig: cors.ExtraConfig{DangerouslyTolerateSubdomainsOfPublicSuffixes: tol}}
			for i := range cfg.Origins {
				cfg.Origins[i] = "https://decoy-" + strconv.Itoa(i) + ".invalid"
			}
			mw, err = cors.NewMiddleware(cfg)
			if err == nil {
				copy(cfg.Origins, strs)
				err = mw.Reconfigure(&cfg)
			}
		} else {
			mw, err = cors.NewMiddleware(cors.Config{Origins: append([]string(nil), strs...),
				ExtraConfig: cors.ExtraConfig{DangerouslyTolerateSubdomainsOfPublicSuffixes: tol}})
		}
		if err != nil {
			r.Violate("valid-list-rejected", "S1-vs-NewMiddleware", fmt.Sprintf("patterns %q rejected: %v", strs, err), c01Case{strs, "", true})
			mw = nil
		}
	}
	if tree.IsEmpty() != (len(list) == 0) {
		r.Violate("isempty", "tree-invariant", fmt.Sprintf("IsEmpty()=%v for %d inserted patterns %q", tree.IsEmpty(), len(list), strs), c01Case{strs, "", false})
	}
	probeSets := list
	if extraProbes != nil {
		probeSets = append(append([]*uPat(nil), list...), extraProbes...)
	}
	for _, p := range probeSets {
		for k := range p.probes {
			pr := &p.probes[k]
			want := denotesAny(specs, pr.spec)
			var got bool
			if pr.parsed.Scheme == "\x00unparsed" {
				got = false
			} else {
				o := pr.parsed
				got = tree.Contains(&o)
			}
			l.evals++
			if want {
				l.n1++
			} else {
				l.n2++
			}
			if countNontrivial {
				for i := range specs {
					if specs[i].Scheme == pr.spec.Scheme && specs[i].Host[len(specs[i].Host)-1] == pr.spec.Host[len(pr.spec.Host)-1] {
						l.nontrivN++
						break
					}
				}
			}
			if got != want {
				key := "over-grant"
				if want {
					key = "under-grant"
				}
				r.Violate(key, "S1-vs-Tree", fmt.Sprintf("patterns=%q origin=%q: Tree.Contains=%v, denotation=%v", strs, pr.str, got, want), c01Case{strs, pr.str, false})
			}
			if mw != nil {
				l.evals++
				l.counters["public_api_probes"]++
				o := serve(mw, actualReq("GET", pr.str))
				acao, has := o.first(hACAO)
				gotPub := has && acao == pr.str
				if gotPub != want || (has && acao != pr.str) {
					key := "public-over-grant"
					if want {
						key = "public-under-grant"
					}
					r.Violate(key, "S1-vs-GET", fmt.Sprintf("patterns=%q Origin=%q: response %s, denotation=%v", strs, pr.str, o, want), c01Case{strs, pr.str, true})
				}
			}
		}
	}
	// quiescent-point invariant: Elems() invents nothing and denotes what the list denotes
	if len(list) > 0 {
		elems := tree.Elems()
		byStr := make(map[string]PatSpec, len(list))
		for i := range list {
			byStr[strs[i]] = specs[i]
		}
		var especs []PatSpec
		invented := ""
		for _, e := range elems {
			sp, ok := byStr[e]
			if !ok {
				invented = e
				break
			}
			especs = append(especs, sp)
		}
		if invented != "" {
			r.Violate("elems-invented", "tree-invariant", fmt.Sprintf("patterns=%q: Elems() lists %q, which was never inserted (Elems=%q)", strs, invented, elems), c01Case{strs, "", false})
		} else {
			for _, p := range list {
				for k := range p.probes {
					if denotesAny(specs, p.probes[k].spec) != denotesAny(especs, p.probes[k].spec) {
						r.Violate("elems-denotation", "tree-invariant", fmt.Sprintf("patterns=%q: Elems()=%q does not denote the same origins (e.g. %q)", strs, elems, p.probes[k].str), c01Case{strs, p.probes[k].str, false})
						break
					}
				}
			}
		}
	}
}

func TestVerif_C01(t *testing.T) {
	r := newRun(t, "C01")
	r.Rule("pattern lists over a universe built to collide in the radix tree (hosts sharing non-label-boundary suffixes, IPv4/IPv6, trailing dot, 253-byte hosts; 4 schemes; ports none/1/8080/65535/*; exact and *.): " +
		"all ordered lists up to a bound (exhaustive) + PRNG lists of length 4-40 with permutations and duplications + PRNG port families (one host with 2-129 discrete ports in PRNG / descending / rotated order) + PRNG scheme families (2-8 patterns on one or two hosts under 20 schemes that are prefixes / extensions of one another or contain `+ - .` and digits) + PRNG sibling-heavy families (9-40 hosts differing in one byte in front of a common suffix, followed / interleaved / shuffled with patterns that split that node) + PRNG lists with `*` at every position (public API); probes = for every member the denoted origins and every near-miss class of the quantifier. " +
		"evaluation = one (list, origin) verdict compared with the denotation oracle; non-trivial = verdicts on origins sharing scheme and a host suffix byte with a listed pattern, counted per distinct (list, origin) for enumerated lists (distinct by construction) and once per distinct list (by hash) for sampled lists")
	r.Assume("oracle S1 (denotes) transcribes the statement of C01; universe patterns are valid by construction (their acceptance is C13's business)")

	schemes := []string{"http", "https", "ht", "httpss"}
	ports := []int{portNone, 1, 8080, 65535, portAny}
	U := buildUniverse(t, nil, schemes, ports)
	byStr := map[string]*uPat{}
	for _, p := range U {
		byStr[p.str] = p
	}
	nProbes := 0
	for _, p := range U {
		nProbes += len(p.probes)
	}
	r.Set("universe_patterns", len(U))
	r.Set("universe_patterns_rejected_by_ParsePattern", c01UniverseRejected.Load())
	if len(U) < 300 {
		t.Fatalf("C01 universe: only %d of the patterns that are valid by construction were accepted by ParsePattern", len(U))
	}
	r.Set("universe_probes", nProbes)

	var rc c01Case
	if r.LoadReplay(nil, &rc) {
		l := r.newLocal(0)
		var list []*uPat
		for _, s := range rc.Patterns {
			p := byStr[s]
			if p == nil {
				if sp, ok := patSpecFromString(s); ok {
					p, _ = newUPat(sp)
				}
			}
			if p == nil {
				t.Fatalf("replay: pattern %q not in universe", s)
			}
			list = append(list, p)
		}
		c01CheckList(r, l, list, true, nil, false)
		r.merge(l)
		r.Finish(0)
		return
	}

	// cores for exhaustive enumeration
	core := func(hosts []string, schemes []string, ports []int) []*uPat {
		hs := map[string]bool{}
		for _, h := range hosts {
			hs[h] = true
		}
		return buildUniverse(t, func(h string) bool { return hs[h] }, schemes, ports)
	}
	core3 := core([]string{"com", "a.com", "ba.com", "example.com"}, []string{"http", "https"}, []int{portNone, 8080, portAny}) // 48
	core3b := core([]string{"kin", "akin", "127.0.0.1", "127.0.0.10", "example.com."}, []string{"http"}, []int{portNone, portAny, 1})
	var core2 []*uPat
	if r.Thor {
		core2 = U
	} else {
		core2 = buildUniverse(t, nil, []string{"http", "https"}, []int{portNone, 8080, portAny})
	}
	r.Set("core3_patterns", len(core3))
	r.Set("core3b_patterns", len(core3b))
	r.Set("core2_patterns", len(core2))

	// --- exhaustive: every ordered pair over core2 (incl. duplicates), singletons and the empty list
	r.Parallel(len(core2), func(l *Local) {
		a := core2[l.Batch]
		if l.Batch == 0 {
			c01CheckList(r, l, nil, false, core2[:8], false)
		}
		c01CheckList(r, l, []*uPat{a}, l.Batch%7 == 0, nil, true)
		for j, b := range core2 {
			pub := (l.Batch*len(core2)+j)%211 == 0
			c01CheckList(r, l, []*uPat{a, b}, pub, nil, true)
		}
		if l.Batch == 3 {
			l.Sample("pair", c01Case{[]string{a.str, core2[len(core2)/2].str}, a.probes[1].str, false})
		}
	})
	r.Exhaustive(fmt.Sprintf("every ordered list of length 0..2 over %d patterns x all probes of its members", len(core2)))

	// --- exhaustive: every ordered triple over the 48-pattern core (thorough) / a 24-pattern half (quick)
	c3 := core3
	if !r.Thor {
		c3 = core([]string{"com", "a.com", "ba.com", "example.com"}, []string{"http", "https"}, []int{portNone, portAny})[:0]
		for i, p := range core3 {
			if i%2 == 0 {
				c3 = append(c3, p)
			}
		}
	}
	triples := func(c []*uPat) {
		n := len(c)
		r.Parallel(n*n, func(l *Local) {
			a, b := c[l.Batch/n], c[l.Batch%n]
			for k, cc := range c {
				c01CheckList(r, l, []*uPat{a, b, cc}, (l.Batch+k)%997 == 0, nil, true)
			}
		})
		r.Exhaustive(fmt.Sprintf("every ordered list of length 3 over a %d-pattern core x all probes of its members", n))
	}
	triples(c3)
	triples(core3b)

	// --- sampled: long lists, permutations, duplications
	nLists := pick(r, 3000, 80000)
	batches := pick(r, 60, 2000)
	per := nLists / batches
	r.Parallel(batches, func(l *Local) {
		rng := l.Rng
		for i := 0; i < per; i++ {
			n := 4 + rng.IntN(37)
			// bias towards colliding hosts: pick a few hosts and draw patterns from those
			var pool []*uPat
			if rng.IntN(3) == 0 {
				pool = U
			} else {
				k := 2 + rng.IntN(4)
				sel := map[string]bool{}
				for len(sel) < k {
					sel[choose(rng, U).spec.Host] = true
				}
				for _, p := range U {
					if sel[p.spec.Host] {
						pool = append(pool, p)
					}
				}
			}
			list := make([]*uPat, n)
			for j := range list {
				list[j] = choose(rng, pool)
			}
			// random duplications
			for d := rng.IntN(4); d > 0; d-- {
				list[rng.IntN(n)] = list[rng.IntN(n)]
			}
			// a few extra probe sets from patterns NOT in the list
			extra := []*uPat{choose(rng, pool), choose(rng, U)}
			c01CheckList(r, l, list, true, extra, false)
			strs := make([]string, n)
			for j := range list {
				strs[j] = list[j].str
			}
			l.NontrivialKey(strs...)
			if i == 0 && l.Batch < 3 {
				l.Sample("sampled-list", c01Case{strs, list[0].probes[0].str, true})
			}
			// order / multiplicity independence: 3 permutations must give the same verdicts
			// (each is compared with the same order-free oracle, so any difference shows up as a violation in one of them)
			for k := 0; k < 3; k++ {
				perm := shuffled(rng, list)
				if rng.IntN(2) == 0 {
					perm = append(perm, perm[rng.IntN(len(perm))])
				}
				c01CheckList(r, l, perm, false, extra, false)
			}
		}
	})
	// --- sibling-heavy families (nodes with many edges, split by later patterns)
	nFam := pick(r, 600, 20000)
	famBatches := pick(r, 60, 1000)
	r.Parallel(famBatches, func(l *Local) {
		rng := l.Rng
		for i := 0; i < nFam/famBatches; i++ {
			list, err := c01Family(rng)
			if err != nil { // acceptance of patterns is C13's business
				l.counters["sibling_family_pattern_rejected"]++
				continue
			}
			c01CheckList(r, l, list, i%2 == 0, nil, false)
			strs := make([]string, len(list))
			for j := range list {
				strs[j] = list[j].str
			}
			l.NontrivialKey(strs...)
			l.counters["sibling_family_lists"]++
		}
	})
	// --- scheme families: one or two hosts under many schemes that are prefixes / extensions of one another or differ in
	// bytes that sort before letters (`+`, `-`, `.`, digits) (lesson of seeded change C01-mm: scheme lookup by anything
	// other than exact comparison)
	c01SchemePool := []string{"http", "https", "ht", "httpss", "http+unix", "h2", "hello", "coap", "coaps", "coap+tcp", "web+app", "wss", "ws", "a", "a+b", "a.b", "a-b", "a0", "ab", "z39.50"}
	nSch := pick(r, 400, 20000)
	r.Parallel(famBatches, func(l *Local) {
		rng := l.Rng
		for i := 0; i < nSch/famBatches; i++ {
			hosts := []string{choose(rng, []string{"example.com", "a.com", "kin", "example.com."})}
			if rng.IntN(3) == 0 {
				hosts = append(hosts, choose(rng, []string{"ample.com", "xample.com", "akin", "com"}))
			}
			n := 2 + rng.IntN(7)
			var list []*uPat
			for j := 0; j < n; j++ {
				sp := PatSpec{Scheme: choose(rng, c01SchemePool), Host: choose(rng, hosts), Port: choose(rng, []int{portNone, portNone, 8080, portAny, 65535})}
				if rng.IntN(4) == 0 && len(sp.Host) < 250 {
					sp.Subs = true
				}
				if up, err := newUPat(sp); err == nil {
					list = append(list, up)
				} else {
					l.counters["scheme_family_pattern_rejected"]++
				}
			}
			if len(list) < 2 {
				continue
			}
			c01CheckList(r, l, list, i%2 == 0, nil, false)
			strs := make([]string, len(list))
			for j := range list {
				strs[j] = list[j].str
			}
			l.NontrivialKey(strs...)
			l.counters["scheme_family_lists"]++
		}
	})
	// --- port families: ONE host and scheme listed with n discrete ports in PRNG order, n around every threshold a
	// port list could switch representation at (lesson of seeded change C15-o: a list of exactly 8 ports kept unsorted
	// but binary-searched)
	portCounts := []int{2, 3, 4, 5, 6, 7, 8, 9, 10, 15, 16, 17, 31, 32, 33, 63, 64, 65, 127, 128, 129}
	r.Parallel(len(portCounts)*pick(r, 6, 60), func(l *Local) {
		rng := l.Rng
		n := portCounts[l.Batch%len(portCounts)]
		host := choose(rng, []string{"localhost", "example.com", "a.com", "127.0.0.1"})
		scheme := "http"
		subs := rng.IntN(4) == 0 && host != "127.0.0.1"
		seen := map[int]bool{}
		var list []*uPat
		for len(list) < n {
			p := 1 + rng.IntN(65535)
			if rng.IntN(3) == 0 {
				p = choose(rng, []int{1, 2, 79, 81, 442, 444, 3000, 8080, 9090, 65534, 65535})
			}
			if seen[p] || p == 80 {
				continue
			}
			seen[p] = true
			up, err := newUPat(PatSpec{Scheme: scheme, Subs: subs, Host: host, Port: p})
			if err != nil {
				l.counters["port_family_pattern_rejected"]++
				continue
			}
			list = append(list, up)
		}
		switch l.Batch / len(portCounts) % 3 {
		case 1: // descending
			sort.Slice(list, func(i, j int) bool { return list[i].spec.Port > list[j].spec.Port })
		case 2: // ascending except that the smallest comes last
			sort.Slice(list, func(i, j int) bool { return list[i].spec.Port < list[j].spec.Port })
			list = append(list[1:], list[0])
		}
		c01CheckList(r, l, list, true, nil, false)
		strs := make([]string, len(list))
		for j := range list {
			strs[j] = list[j].str
		}
		l.NontrivialKey(strs...)
		l.counters["port_family_lists"]++
	})
	// --- lists that contain `*` (public API only: the tree never sees `*`): every origin is allowed,
	// wherever `*` stands in the list and whatever else is listed
	starLists := pick(r, 400, 20000)
	r.Parallel(pick(r, 16, 256), func(l *Local) {
		rng := l.Rng
		for i := 0; i < starLists/pick(r, 16, 256); i++ {
			n := 1 + rng.IntN(5)
			strs := make([]string, 0, n+2)
			var members []*uPat
			for j := 0; j < n; j++ {
				p := choose(rng, U)
				members = append(members, p)
				strs = append(strs, p.str)
			}
			for k := 1 + rng.IntN(2); k > 0; k-- {
				pos := rng.IntN(len(strs) + 1)
				strs = append(strs[:pos], append([]string{"*"}, strs[pos:]...)...)
			}
			if i%5 == 0 {
				strs = []string{"*"}
			}
			l.curA = strs
			mw, err := cors.NewMiddleware(cors.Config{Origins: append([]string(nil), strs...), ExtraConfig: cors.ExtraConfig{DangerouslyTolerateSubdomainsOfPublicSuffixes: true}})
			if err != nil {
				r.Violate("valid-list-rejected", "S1-vs-NewMiddleware", fmt.Sprintf("patterns %q rejected: %v", strs, err), c01Case{strs, "", true})
				continue
			}
			probes := []string{"https://unlisted.example.org", "http://unlisted.example.org:8081", "https://example.com"}
			for _, m := range members {
				for k := 0; k < len(m.probes); k += 1 + len(m.probes)/12 {
					probes = append(probes, m.probes[k].str)
				}
			}
			for _, o := range probes {
				for _, q := range []Req{actualReq("GET", o), preflightReq(o, "GET", nil, false)} {
					obs := serve(mw, q)
					l.evals++
					l.n1++
					if v, ok := obs.first(hACAO); !ok || (v != "*" && v != o) {
						r.Violate("star-list-refuses", "S1-vs-GET", fmt.Sprintf("patterns=%q (contains `*`) Origin=%q: response %s", strs, o, obs), c01Case{strs, o, true})
					}
				}
			}
			l.NontrivialKey(strs...)
			if l.Batch == 0 && i == 1 {
				l.Sample("star-list", c01Case{strs, probes[0], true})
			}
		}
	})
	r.mu.Lock()
	r.counters["verdict_allowed"], r.counters["verdict_denied"] = r.counters["n1"], r.counters["n2"]
	delete(r.counters, "n1")
	delete(r.counters, "n2")
	al, de := r.counters["verdict_allowed"], r.counters["verdict_denied"]
	r.mu.Unlock()
	if r.Phase != "coverage" && (al < 1000 || de < 1000) {
		r.Inconclusive(fmt.Sprintf("verdict distribution too skewed: allowed=%d denied=%d", al, de))
	}
	r.Finish(10000)
}
