//go:build verif

package verifharness_test

import (
	"sort"
	"strings"
)

// S3 - browser model: an executable transcription of the Fetch standard's
// "CORS-preflight fetch" (steps 1-7, use-CORS-preflight flag unset), "CORS
// check", method normalisation, "CORS-unsafe request-header names",
// "extract header list values", and the Private Network Access preflight rule.
// It talks to the real middleware only through requests and responses.

type BrowserResult struct {
	Success     bool   `json:"success"`
	Step        string `json:"failed_step,omitempty"`
	Preflighted bool   `json:"preflighted"`
}

// canonicalACRH renders the CORS-unsafe request-header names the way a
// Fetch-compliant browser does: byte-lowercase, sort, (dedupe), join with ",".
func canonicalACRHNames(headers []string) []string {
	seen := map[string]bool{}
	var names []string
	for _, h := range headers {
		n := asciiLower(h)
		if !seen[n] {
			seen[n] = true
			names = append(names, n)
		}
	}
	sort.Strings(names)
	return names
}

// getCombined is Fetch's "get a header value": values of all field lines joined with ", ".
func getCombined(o Obs, name string) (string, bool) {
	v := o.Headers[name]
	if len(v) == 0 {
		return "", false
	}
	return strings.Join(v, ", "), true
}

// extractList is "extract header list values" for a `#token` ABNF.
// It returns (values, present, failure).
func extractList(o Obs, name string) ([]string, bool, bool) {
	lines := o.Headers[name]
	if len(lines) == 0 {
		return nil, false, false
	}
	var vals []string
	for _, line := range lines {
		for _, el := range strings.Split(line, ",") {
			el = strings.Trim(el, " \t")
			if el == "" {
				continue
			}
			if !isToken(el) {
				return nil, true, true
			}
			vals = append(vals, el)
		}
	}
	return vals, true, false
}

func containsExact(list []string, s string) bool {
	for _, x := range list {
		if x == s {
			return true
		}
	}
	return false
}

func containsFold(list []string, s string) bool {
	s = asciiLower(s)
	for _, x := range list {
		if asciiLower(x) == s {
			return true
		}
	}
	return false
}

// corsCheck is https://fetch.spec.whatwg.org/#concept-cors-check
func corsCheck(o Obs, origin string, credInclude bool) bool {
	acao, ok := getCombined(o, hACAO)
	if !ok {
		return false
	}
	if !credInclude && acao == "*" {
		return true
	}
	if acao != origin {
		return false
	}
	if !credInclude {
		return true
	}
	acac, ok := getCombined(o, hACAC)
	return ok && acac == "true"
}

// browserFetch runs the intent against the middleware. acrhLines, when non-nil,
// is the (intermediary-perturbed) rendering of the ACRH header to send instead
// of the canonical single line.
func browserFetch(mw wrapper, in *Intent, acrhLines []string) BrowserResult {
	origin := in.Origin.String()
	method := fetchNormalizeMethod(in.Method)
	names := canonicalACRHNames(in.Headers)
	safelisted := method == "GET" || method == "HEAD" || method == "POST"
	needPreflight := !safelisted || len(names) > 0 || in.PNATarget
	res := BrowserResult{Preflighted: needPreflight}
	if needPreflight {
		var acrh []string
		if len(names) > 0 {
			if acrhLines != nil {
				acrh = acrhLines
			} else {
				acrh = []string{strings.Join(names, ",")}
			}
		}
		o := serve(mw, preflightReq(origin, method, acrh, in.PNATarget))
		// step 7: CORS check and ok status
		if !corsCheck(o, origin, in.CredMode) {
			res.Step = "preflight-cors-check"
			return res
		}
		if !o.ok2xx() {
			res.Step = "preflight-status"
			return res
		}
		methods, _, fail := extractList(o, hACAM)
		if fail {
			res.Step = "preflight-acam-syntax"
			return res
		}
		headerNames, _, fail := extractList(o, hACAH)
		if fail {
			res.Step = "preflight-acah-syntax"
			return res
		}
		if !containsExact(methods, method) && !safelisted && (in.CredMode || !containsExact(methods, "*")) {
			res.Step = "preflight-method"
			return res
		}
		for _, n := range names {
			if n == "authorization" && !containsFold(headerNames, n) {
				res.Step = "preflight-non-wildcard-header"
				return res
			}
		}
		for _, n := range names {
			if !containsFold(headerNames, n) && (in.CredMode || !containsExact(headerNames, "*")) {
				res.Step = "preflight-header"
				return res
			}
		}
		if in.PNATarget {
			if v, ok := getCombined(o, hACAPN); !ok || v != "true" {
				res.Step = "preflight-pna"
				return res
			}
		}
		if o.Calls != 0 {
			// not part of Fetch; recorded so that C11 has company
			res.Step = "preflight-reached-handler"
		}
	}
	// actual request
	hdr := map[string][]string{hOrigin: {origin}}
	for _, n := range names {
		hdr[canonicalKey(n)] = []string{"v"}
	}
	o := serve(mw, Req{Method: method, Header: hdr})
	if !corsCheck(o, origin, in.CredMode) {
		res.Step = "actual-cors-check"
		return res
	}
	res.Success = true
	res.Step = ""
	return res
}

func canonicalKey(lower string) string {
	b := []byte(lower)
	up := true
	for i, c := range b {
		if up && c >= 'a' && c <= 'z' {
			b[i] = c - 32
		}
		up = c == '-'
	}
	return string(b)
}
