//go:build verif

package verifharness_test

import (
	"fmt"
	"math/rand/v2"
	"net/http"
	"strconv"
	"strings"
	"testing"

	"github.com/jub0bs/cors"
)

// C10 - Vary is sufficient (a 2-safety property): pair monitor.

type c10Case struct {
	Spec   *CfgSpec `json:"spec"`
	Debug  bool     `json:"debug"`
	Preset []string `json:"preset_vary"`
	R1     Req      `json:"r1"`
	R2     Req      `json:"r2"`
}

// presetVary is an outer middleware that sets Vary values before the CORS middleware runs.
type presetVary struct {
	vals []string
	next http.Handler
}

// The outer layer installs ONE slice per preset, shared by all the responses it decorates (the zero-allocation idiom the
// library itself uses for its singletons): nobody downstream may write into it (appending reallocates, its capacity
// equals its length). outerSliceIntact verifies that after every exchange
// (lesson of seeded change C12-jJ: the middleware folding its value into the last existing Vary line in place).
func (p presetVary) ServeHTTP(w http.ResponseWriter, r *http.Request) {
	if len(p.vals) > 0 {
		w.Header()["Vary"] = p.vals
	}
	// ... and, as outer layers do, response headers that have nothing to do with CORS; which ones is a function of the
	// preset alone, so both requests of a pair meet the same ones
	// (lesson of seeded change C10-q: the middleware's Vary addition skipped behind a pre-set `Cache-Control: no-store`)
	for k, v := range unrelatedPresets[hashString("unrelated|"+strings.Join(p.vals, "\x00"))%uint64(len(unrelatedPresets))] {
		w.Header()[k] = append([]string(nil), v...)
	}
	p.next.ServeHTTP(w, r)
}

var unrelatedPresets = []http.Header{
	{},
	{"Cache-Control": {"no-store"}},
	{"Cache-Control": {"private, no-cache, no-store, must-revalidate"}, "Pragma": {"no-cache"}, "Expires": {"0"}},
	{"Content-Type": {"application/json"}, "Content-Encoding": {"gzip"}},
	{"Cache-Control": {"public, max-age=3600"}, "Etag": {`"v1"`}, "Last-Modified": {"Mon, 05 Oct 2026 00:00:00 GMT"}},
	{"Set-Cookie": {"a=b; Secure"}, "Connection": {"close"}, "X-Frame-Options": {"DENY"}},
	{"Surrogate-Control": {"no-store"}, "Cdn-Cache-Control": {"no-store"}, "Age": {"0"}, "Cross-Origin-Resource-Policy": {"same-origin"}},
	{"Timing-Allow-Origin": {"*"}, "Cross-Origin-Opener-Policy": {"same-origin"}, "Content-Security-Policy": {"default-src 'none'"}},
}

func outerSliceIntact(shared, pristine []string) bool {
	return equalStrings(shared[:len(pristine)], pristine) && len(shared) == len(pristine)
}

func serveWithPreset(mw *cors.Middleware, preset []string, q Req) Obs {
	inner := &countingHandler{body: "ok"}
	w := newRW()
	w.inner = inner
	presetVary{preset, wrappedOnce(mw)}.ServeHTTP(w, q.httpReq())
	return w.obs(inner.calls)
}

// varyNames parses the Vary field: comma lists, case-insensitive; star reports `*`.
func varyNames(o Obs) (names map[string]bool, star bool) {
	names = map[string]bool{}
	for _, line := range o.get(hVary) {
		for _, el := range strings.Split(line, ",") {
			el = asciiLower(strings.Trim(el, " \t"))
			if el == "*" {
				star = true
			}
			if el != "" {
				names[el] = true
			}
		}
	}
	return
}

// isSubsequence: the Vary VALUES set earlier are preserved, in order. Values are the comma-separated members of the
// field (a field line may be re-rendered - two lines folded into one, a space dropped after a comma - without any
// value being lost; the statement speaks of values, and HTTP treats the renderings alike), compared byte for byte.
func isSubsequence(sub, full []string) bool {
	a, b := varyMembers(sub), varyMembers(full)
	i := 0
	for _, f := range b {
		if i < len(a) && a[i] == f {
			i++
		}
	}
	return i == len(a)
}

func varyMembers(lines []string) []string {
	var out []string
	for _, line := range lines {
		for _, m := range strings.Split(line, ",") {
			if m = strings.Trim(m, " \t"); m != "" {
				out = append(out, m)
			}
		}
	}
	return out
}

// (the last four: request headers that merely LOOK related - lesson of seeded change C10-p, an outcome made to depend on a new
// Access-Control-Request-* header that Vary does not name)
var c10Mutable = []string{hOrigin, hACRM, hACRH, hACRPN, "Referer", "X-Unrelated", "Authorization", "Cookie",
	"Access-Control-Request-Local-Network", "Access-Control-Request-Credentials", "Sec-Fetch-Mode", "Access-Control-Request-Foo"}

func c10Pool(h string, allowed []string) [][]string {
	switch h {
	case hOrigin:
		out := [][]string{nil, {}, {"https://never-allowed.invalid"}, {"null"}, {"https://EXAMPLE.com"}, {""}, {"https://example.com:1"}}
		for _, a := range allowed {
			out = append(out, []string{a}, []string{"x" + a}, []string{a, "https://other.invalid"})
		}
		return out
	case hACRM:
		return [][]string{nil, {}, {"PUT"}, {"GET"}, {"DELETE"}, {"CHICKEN"}, {"UNLISTED"}, {""}, {"put"}}
	case hACRH:
		return [][]string{nil, {}, {"x-listed-1"}, {"x-listed-1,x-listed-2"}, {"authorization"}, {"x-unlisted"}, {"content-type"}, {""}, {"x-listed-1", "x-listed-2"}, {"x-listed-2,x-listed-1"}}
	case hACRPN:
		return [][]string{nil, {}, {"true"}, {"false"}, {"TRUE"}}
	case "Access-Control-Request-Local-Network", "Access-Control-Request-Credentials", "Access-Control-Request-Foo":
		return [][]string{nil, {"true"}, {"false"}}
	case "Sec-Fetch-Mode":
		return [][]string{nil, {"cors"}, {"no-cors"}}
	default:
		return [][]string{nil, {"https://referrer.invalid/"}, {"v2"}}
	}
}

func c10Check(r *Run, l *Local, spec *CfgSpec, mw *cors.Middleware, debug bool, preset []string, r1, r2 Req, o1 Obs) {
	l.cur = func() any { return c10Case{spec, debug, preset, trimReq(r1), trimReq(r2)} }
	o2 := serveWithPreset(mw, preset, r2)
	l.evals++
	if !o1.Equal(o2) {
		cfg := spec.Config()
		r.Violate("vary-insufficient", "pair-monitor", fmt.Sprintf("requests agree on every header listed in Vary %q of the first response but are answered differently | r1 %s -> %s | r2 %s -> %s | debug=%v | %s",
			o1.get(hVary), reqString(r1), o1, reqString(r2), o2, debug, cfgString(&cfg)), c10Case{spec, debug, preset, trimReq(r1), trimReq(r2)})
	}
}

func sameValues(a, b []string) bool { return equalStrings(a, b) }

func c10R1Shapes(sem *Sem, allowed []string, rng *rand.Rand) []Req {
	a := allowed[0]
	names := sem.discreteHdrNames()
	listed := "x-listed-1"
	if len(names) > 0 {
		listed = names[0]
	}
	shapes := []Req{
		buildReq("GET", nil, nil, nil, nil, nil),
		buildReq("GET", []string{a}, nil, nil, nil, nil),
		buildReq("GET", []string{"https://never-allowed.invalid"}, nil, nil, nil, nil),
		buildReq("GET", []string{"https://EXAMPLE.com/"}, nil, nil, nil, nil),
		buildReq("POST", []string{a}, []string{"PUT"}, nil, nil, nil),
		buildReq("PUT", []string{a}, nil, nil, nil, map[string][]string{"Referer": {"https://a.invalid/"}}),
		buildReq("OPTIONS", nil, nil, nil, nil, nil),
		buildReq("OPTIONS", nil, []string{"PUT"}, nil, nil, nil),
		buildReq("OPTIONS", []string{a}, nil, nil, nil, nil),
		buildReq("OPTIONS", []string{a}, []string{"GET"}, nil, nil, nil),
		buildReq("OPTIONS", []string{a}, []string{"PUT"}, nil, nil, nil),
		buildReq("OPTIONS", []string{a}, []string{"UNLISTED"}, nil, nil, nil),
		buildReq("OPTIONS", []string{a}, []string{"GET"}, []string{listed}, nil, nil),
		buildReq("OPTIONS", []string{a}, []string{"GET"}, []string{"x-unlisted"}, nil, nil),
		// several ACRH field lines whose first line equals an earlier / later single-line request
		buildReq("OPTIONS", []string{a}, []string{"GET"}, []string{listed, "x-unlisted"}, nil, nil),
		buildReq("OPTIONS", []string{a}, []string{"GET"}, []string{listed, listed}, nil, nil),
		buildReq("OPTIONS", []string{a}, []string{"GET"}, []string{"", listed}, nil, nil),
		buildReq("OPTIONS", []string{a}, []string{"GET"}, []string{"authorization"}, nil, nil),
		buildReq("OPTIONS", []string{a}, []string{"GET"}, nil, []string{"true"}, nil),
		buildReq("OPTIONS", []string{"https://never-allowed.invalid"}, []string{"GET"}, nil, nil, nil),
		buildReq("OPTIONS", []string{"nonsense"}, []string{"GET"}, nil, nil, nil),
		buildReq("HEAD", []string{}, nil, nil, nil, nil),
	}
	if rng != nil {
		shapes = append(shapes, randHostileReq(rng, sem, append([]string{"https://never-allowed.invalid", "null"}, allowed...)))
	}
	return shapes
}

// c10Contexts: requests after which q is served again (see the second pass of the pair monitor).
func c10Contexts(q Req, sem *Sem, allowed []string) []Req {
	var out []Req
	cut := q.clone()
	changed := false
	for k, v := range cut.Header {
		if len(v) > 1 {
			cut.Header[k] = v[:1]
			changed = true
		}
	}
	if changed {
		out = append(out, cut)
	}
	names := sem.discreteHdrNames()
	other := "x-listed-2"
	if len(names) > 1 {
		other = names[len(names)-1]
	}
	out = append(out,
		buildReq("OPTIONS", []string{allowed[0]}, []string{"GET"}, []string{other}, nil, nil),
		buildReq("GET", []string{allowed[0]}, nil, nil, nil, nil))
	return out
}

func TestVerif_C10(t *testing.T) {
	r := newRun(t, "C10")
	r.Rule("C02 configuration product and PRNG origin-rich configurations x debug off/on x pre-set Vary values (none; unrelated names; names the middleware itself uses, such as Origin or one Access-Control-Request-* name, alone, combined or empty) x first requests of 23 shapes (no Origin; allowed / refused / malformed Origin; actual and non-CORS OPTIONS; preflights succeeding and failing at each step; PRNG hostile) " +
		"x second requests with the same method that agree (same value lists) on every header named in the first response's Vary and differ elsewhere: systematically every unlisted header among Origin/ACRM/ACRH/ACRPN/Referer/X-Unrelated/Authorization/Cookie replaced by every value of its pool, plus PRNG multi-header mutants; finally every first request once more, after everything the middleware answered in between (the pair (r, r) separated in time). " +
		"evaluation = one pair; the oracle demands identical status, headers and body (constant inner handler) and that pre-set Vary values survive; non-trivial = pair whose second request differs from the first in Origin, ACRM, ACRH or ACRPN (distinct by hash)")
	r.Assume("a cache keys on the method and on the request headers named in Vary, comparing field values as lists; second requests keep Vary-listed headers exactly as they are in the first request")

	var rc c10Case
	if r.LoadReplay(nil, &rc) {
		l := r.newLocal(0)
		mw, err := cors.NewMiddleware(rc.Spec.Config())
		if err != nil {
			t.Fatalf("replay: %v", err)
		}
		mw.SetDebug(rc.Debug)
		r1, r2 := expandReq(rc.R1), expandReq(rc.R2)
		o1 := serveWithPreset(mw, rc.Preset, r1)
		if reqString(r1) == reqString(r2) {
			// a pair (r, r) separated in time: the deterministic first-pass shapes are served in between
			sem := rc.Spec.Sem()
			var allowed []string
			for _, o := range allowedInstances(sem.Pats) {
				allowed = append(allowed, o.String())
			}
			if len(allowed) == 0 {
				allowed = []string{"https://example.com", "https://other.example.org"}
			}
			for _, q := range c10R1Shapes(sem, allowed, nil) {
				serveWithPreset(mw, rc.Preset, q)
			}
			for _, ctx := range c10Contexts(r1, sem, allowed) {
				c10Check(r, l, rc.Spec, mw, rc.Debug, rc.Preset, r1, r2, o1)
				serveWithPreset(mw, rc.Preset, ctx)
			}
		}
		c10Check(r, l, rc.Spec, mw, rc.Debug, rc.Preset, r1, r2, o1)
		r.merge(l)
		r.Finish(0)
		return
	}
	prod, _ := c02Product()
	nProd := len(prod)
	{
		rng := rand.New(rand.NewPCG(r.Seed, 10))
		for i := 0; i < pick(r, 80, 4000); i++ {
			prod = append(prod, randRichValidCfg(rng))
		}
	}
	cfgStride := pick(r, 9, 1)
	nRand := pick(r, 6, 24)
	pristinePresets := [][]string{nil, {"Accept-Encoding"}, {"Accept-Encoding", "Cookie, X-Pre"}, {"Origin"}, {"Access-Control-Request-Headers"}, {""},
		{"Accept-Encoding, Origin"}, {"origin", "Access-Control-Request-Method"}, {"Access-Control-Request-Private-Network, Origin"},
		{"X-Original-Host"}, {"Origin-Agent-Cluster"}, {"X-Origin"}, {"Access-Control-Request-Headers-X, Accept"}, {"rigin"}, {"*"},
		{"Access-Control-Request-Headers, Access-Control-Request-Method, Access-Control-Request-Private-Network, Origin"},
		// the middleware's own names repeated / in other letter case / as a proper subset listed twice
		// (lesson of seeded change C10-me: counting tokens instead of distinct names)
		{"Origin, Access-Control-Request-Method", "origin,access-control-request-method"},
		{"Origin, Origin, ORIGIN, origin"}, {"ORIGIN", "origin", "Origin", "oRiGiN", "Accept"},
		{"access-control-request-headers , ACCESS-CONTROL-REQUEST-METHOD", "Access-Control-Request-Headers"},
		{"Access-Control-Request-Private-Network, Access-Control-Request-Private-Network, Access-Control-Request-Private-Network, Origin"}}
	r.Parallel(len(prod), func(l *Local) {
		if l.Batch < nProd && !r.visit(l.Batch, cfgStride) {
			return
		}
		// this worker's outer layer: one shared slice per preset (capacity == length)
		presets := make([][]string, len(pristinePresets))
		for i, p := range pristinePresets {
			if p != nil {
				presets[i] = append(make([]string, 0, len(p)), p...)
			}
		}
		c := prod[l.Batch]
		sem := c.Sem()
		var allowed []string
		for _, o := range allowedInstances(sem.Pats) {
			allowed = append(allowed, o.String())
		}
		if len(allowed) == 0 {
			allowed = []string{"https://example.com", "https://other.example.org"}
		}
		key := specKey(c)
		rng := l.Rng
		for d := 0; d < 2; d++ {
			debug := d == 1
			mw, err := newMiddlewareViaDbg(c.Config(), l.Batch+5*d, debug)
			if err != nil {
				return
			}
			if (l.Batch+d)%2 == 0 {
				poisonRound(mw, allowed[0]) // hostile wrapped handler first (see poisonRound)
			}
			for pi, preset := range presets {
				if pi > 0 && (l.Batch+d+pi)%4 != 0 && !r.Thor {
					continue
				}
				type firstAnswer struct {
					q Req
					o Obs
				}
				var firsts []firstAnswer
				shapes := c10R1Shapes(sem, allowed, rng)
				for _, r1 := range shapes {
					l.cur = func() any { return c10Case{c, debug, preset, trimReq(r1), Req{}} }
					o1 := serveWithPreset(mw, preset, r1)
					firsts = append(firsts, firstAnswer{r1, o1})
					// pre-set Vary values are preserved, in order
					if !isSubsequence(preset, o1.get(hVary)) {
						cfg := c.Config()
						r.Violate("preset-vary-lost", "pair-monitor", fmt.Sprintf("Vary values %q set earlier in the chain are not preserved: response %s | request %s | %s", preset, o1, reqString(r1), cfgString(&cfg)),
							c10Case{c, debug, preset, trimReq(r1), trimReq(r1)})
					}
					listed, star := varyNames(o1)
					if star {
						l.counters["vary_star"]++
						continue
					}
					mutable := func(h string) bool { return !listed[asciiLower(h)] }
					emit := func(r2 Req) {
						c10Check(r, l, c, mw, debug, preset, r1, r2, o1)
						for _, h := range []string{hOrigin, hACRM, hACRH, hACRPN} {
							if !sameValues(r1.Header[h], r2.Header[h]) {
								l.NontrivialKey(key, strconv.Itoa(d), strconv.Itoa(pi), reqString(r1), reqString(r2))
								l.counters["pairs_differing_in_"+h]++
								break
							}
						}
					}
					// systematic single-header replacements
					for _, h := range c10Mutable {
						if !mutable(h) {
							// listed in Vary: must stay as it is. (An in-process header key with zero values is not
							// swapped for an absent key here: on the wire - which is all a cache sees - the two are
							// the same request, so demanding equal answers would go beyond the property.)
							continue
						}
						for _, v := range c10Pool(h, allowed) {
							if sameValues(v, r1.Header[h]) {
								continue
							}
							r2 := r1.clone()
							if v == nil {
								delete(r2.Header, h)
							} else {
								r2.Header[h] = v
							}
							emit(r2)
						}
					}
					// PRNG multi-header mutants
					for k := 0; k < nRand; k++ {
						r2 := r1.clone()
						for _, h := range c10Mutable {
							if mutable(h) && rng.IntN(2) == 0 {
								v := choose(rng, c10Pool(h, allowed))
								if v == nil {
									delete(r2.Header, h)
								} else {
									r2.Header[h] = v
								}
							}
						}
						emit(r2)
						if l.Batch%3000 == 11 && k == 0 && d == 0 && pi == 0 {
							l.Sample("pair", c10Case{c, debug, preset, trimReq(r1), trimReq(r2)})
						}
					}
				}
				// second pass: the very same requests again, after everything else this middleware has answered in
				// between (a cache would have served the stored first answers): the trivially agreeing pair (r, r)
				// separated in time (lesson of seeded change C10-i: a verdict memo keyed on less than the Vary-listed headers)
				// ... and directly after each of several context requests that could leave something behind: the request cut
				// down to the first value of each of its multi-valued headers, a successful single-line preflight naming
				// another listed header, an ordinary actual request (at least two of these contexts differ in whatever a
				// request-keyed memo would hold)
				if !outerSliceIntact(preset, pristinePresets[pi]) {
					cfg := c.Config()
					r.Violate("outer-slice-written", "pair-monitor", fmt.Sprintf("the Vary slice %q that the outer layer shares between its responses was written to by the middleware (now %q): later responses depend on earlier requests | %s", pristinePresets[pi], preset, cfgString(&cfg)),
						c10Case{c, debug, pristinePresets[pi], trimReq(shapes[0]), trimReq(shapes[0])})
					copy(preset, pristinePresets[pi])
				}
				for _, fa := range firsts {
					c10Check(r, l, c, mw, debug, preset, fa.q, fa.q, fa.o)
					l.counters["pairs_same_request_later"]++
					for _, ctx := range c10Contexts(fa.q, sem, allowed) {
						serveWithPreset(mw, preset, ctx)
						c10Check(r, l, c, mw, debug, preset, fa.q, fa.q, fa.o)
						l.counters["pairs_same_request_after_context"]++
					}
				}
			}
		}
	})
	r.Finish(5000)
}
