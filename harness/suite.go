//go:build verif

package verifharness_test

import (
	"reflect"
	"sort"

	"github.com/jub0bs/cors"
)

// Request suites derived from a configuration (C06, C08, C12, C15): near-miss
// origin probes as GET and as preflight, plus one request per method / header /
// PNA dimension, so that every observable aspect of a configuration shows up in
// at least one response.

func suiteFor(sem *Sem) []Req {
	var out []Req
	seen := map[string]bool{}
	add := func(q Req) {
		k := reqString(q)
		if !seen[k] {
			seen[k] = true
			out = append(out, q)
		}
	}
	// origins: allowed instances and near-misses of (at most 4) patterns
	var origins []string
	pats := sem.Pats
	if len(pats) > 4 {
		pats = pats[:4]
	}
	for _, p := range pats {
		pr := probesFor(p)
		step := max(1, len(pr)/10)
		for i := 0; i < len(pr); i += step {
			origins = append(origins, pr[i].String())
		}
	}
	for _, o := range allowedInstances(sem.Pats) {
		origins = append(origins, o.String())
	}
	origins = append(origins, "https://example.com", "https://unrelated.invalid", "null", "https://EXAMPLE.com", "http://[::1]:9090", "http://127.0.0.1:9090")
	allowed := ""
	for _, o := range allowedInstances(sem.Pats) {
		allowed = o.String()
		break
	}
	if allowed == "" {
		allowed = "https://example.com"
	}
	for _, o := range origins {
		add(actualReq("GET", o))
		add(preflightReq(o, "PUT", nil, false))
	}
	add(buildReq("GET", nil, nil, nil, nil, nil))
	add(buildReq("OPTIONS", nil, nil, nil, nil, nil))
	add(actualReq("OPTIONS", allowed))
	add(actualReq("POST", allowed))
	// methods
	ms := []string{"GET", "HEAD", "POST", "PUT", "put", "PATCH", "patch", "DELETE", "delete", "OPTIONS", "CHICKEN", "Chicken", "QUERY", "UNLISTED", "PURGE"}
	for m := range sem.Methods {
		ms = append(ms, m, asciiLower(m), asciiUpper(m))
	}
	sort.Strings(ms)
	for _, m := range ms {
		add(preflightReq(allowed, m, nil, false))
	}
	// headers
	names := sem.discreteHdrNames()
	hs := [][]string{{"authorization"}, {"x-unlisted"}, {"content-type"}, {"accept-language"}, {"accept,content-language"}, {"authorization,content-type"}, {"AUTHORIZATION"}, {""}, {"x-listed-1"}, {"x-listed-1,x-listed-2"}, {"x-listed-2,x-listed-1"}}
	for _, n := range names {
		hs = append(hs, []string{n}, []string{asciiUpper(n)})
	}
	if len(names) > 0 {
		hs = append(hs, []string{joinComma(names)}, []string{joinComma(append(append([]string{}, names...), "zzz-unlisted"))}, names)
	}
	// several field lines: allowed first line followed by a disallowed / repeated / unsorted / empty one
	for i, n := range names {
		hs = append(hs, []string{n, "x-unlisted"}, []string{n, n}, []string{n, ""}, []string{"", n}, []string{n, "zzz-unlisted," + n})
		if i+1 < len(names) {
			hs = append(hs, []string{names[i+1], n}, []string{n, names[i+1]}, []string{n + "," + names[i+1], "x-unlisted"})
		}
		if i > 2 {
			break
		}
	}
	hs = append(hs, []string{"x-listed-1", "x-unlisted"}, []string{"content-type", "x-not-allowed"}, []string{"authorization", "x-unlisted"})
	for _, h := range hs {
		add(preflightReq(allowed, "GET", h, false))
	}
	// PNA
	add(preflightReq(allowed, "GET", nil, true))
	add(preflightReq(allowed, "PUT", []string{"authorization"}, true))
	add(preflightReq("https://unrelated.invalid", "GET", nil, true))
	return out
}

func joinComma(s []string) string {
	out := ""
	for i, x := range s {
		if i > 0 {
			out += ","
		}
		out += x
	}
	return out
}

// runSuite answers the suite in both debug modes (debug is restored to `restore` afterwards).
func runSuite(mw *cors.Middleware, suite []Req, restore bool) []Obs {
	out := make([]Obs, 0, 2*len(suite))
	for _, dbg := range []bool{false, true} {
		mw.SetDebug(dbg)
		for _, q := range suite {
			out = append(out, serve(mw, q))
		}
	}
	mw.SetDebug(restore)
	return out
}

// runSuiteAsIs answers the suite without touching the debug mode.
func runSuiteAsIs(mw *cors.Middleware, suite []Req) []Obs {
	out := make([]Obs, 0, len(suite))
	for _, q := range suite {
		out = append(out, serve(mw, q))
	}
	return out
}

func firstDiff(a, b []Obs) int {
	for i := range a {
		if i >= len(b) || !a[i].Equal(b[i]) {
			return i
		}
	}
	if len(b) > len(a) {
		return len(a)
	}
	return -1
}

// configEqual compares two *cors.Config values field by field (nil and empty lists are the same list).
func configEqual(a, b *cors.Config) bool {
	if a == nil || b == nil {
		return a == b
	}
	eq := func(x, y []string) bool {
		if len(x) == 0 && len(y) == 0 {
			return true
		}
		return reflect.DeepEqual(x, y)
	}
	return eq(a.Origins, b.Origins) && a.Credentialed == b.Credentialed && eq(a.Methods, b.Methods) &&
		eq(a.RequestHeaders, b.RequestHeaders) && a.MaxAgeInSeconds == b.MaxAgeInSeconds && eq(a.ResponseHeaders, b.ResponseHeaders) &&
		a.PreflightSuccessStatus == b.PreflightSuccessStatus && a.PrivateNetworkAccess == b.PrivateNetworkAccess &&
		a.PrivateNetworkAccessInNoCORSModeOnly == b.PrivateNetworkAccessInNoCORSModeOnly &&
		a.DangerouslyTolerateInsecureOrigins == b.DangerouslyTolerateInsecureOrigins &&
		a.DangerouslyTolerateSubdomainsOfPublicSuffixes == b.DangerouslyTolerateSubdomainsOfPublicSuffixes
}

// debugProbe observes the debug mode of a configured middleware through a
// preflight that fails at the method step (debug on: ok status + ACAO; off: bare non-ok status).
// It returns "on", "off", "passthrough" or "unknown:<obs>".
func debugProbe(mw *cors.Middleware, allowedOrigin string) string {
	o := serve(mw, preflightReq(allowedOrigin, "VERIFUNLISTEDMETHOD", nil, false))
	switch {
	case o.Calls > 0:
		return "passthrough"
	case o.ok2xx() && len(o.get(hACAO)) > 0:
		return "on"
	case !o.ok2xx() && len(o.get(hACAO)) == 0:
		return "off"
	}
	return "unknown:" + o.String()
}

// viaOther is the configuration middlewares are "reconfigured from" by newMiddlewareVia.
var viaOther = cors.Config{Origins: []string{"https://via-other.example", "https://*.via-other.example:8443"}, Methods: []string{"PURGE", "PUT"},
	RequestHeaders: []string{"X-Via-Other", "X-Listed-2", "Authorization"}, MaxAgeInSeconds: 999, ResponseHeaders: []string{"X-Via-Exposed"},
	ExtraConfig: cors.ExtraConfig{PreflightSuccessStatus: 298}}

// newMiddlewareVia builds a middleware configured with cfg, debug off, along one of several equivalent histories.
func newMiddlewareVia(cfg cors.Config, via int) (*cors.Middleware, error) {
	return newMiddlewareViaDbg(cfg, via, false)
}

// newMiddlewareViaDbg builds a middleware configured with cfg and with debug mode in the given state, along one of
// several histories the documentation declares equivalent (DESIGN.md section 9; lessons of seeded changes C08-b -
// state that only a previous Reconfigure leaves behind - and C02-h - debug mode switched on BEFORE the configuration
// in force was installed and retained across Reconfigure):
//
//	0 NewMiddleware(cfg), SetDebug(d)
//	1 zero value, Reconfigure(cfg), SetDebug(d)
//	2 NewMiddleware(other), SetDebug(d), Reconfigure(cfg)                       [debug retained]
//	3 NewMiddleware(cfg), [SetDebug(true),] Reconfigure(nil), Reconfigure(cfg), SetDebug(d) [omitted when d is false and debug was on before the nil]
//	4 NewMiddleware(cfg), SetDebug(d), Reconfigure(cfg)                          [documented no-op reconfiguration]
//	5 NewMiddleware(cfg), SetDebug(!d), Reconfigure(Config()), SetDebug(d)
//	6 NewMiddleware(other), SetDebug(true), Reconfigure(cfg), SetDebug(false), SetDebug(d)
//	7 NewMiddleware(other), SetDebug(d), Reconfigure(cfg), Reconfigure(cfg)      [debug retained twice]
func newMiddlewareViaDbg(cfg cors.Config, via int, d bool) (*cors.Middleware, error) {
	if via < 0 {
		via = -via
	}
	other := func() *cors.Middleware {
		m, err := cors.NewMiddleware(viaOther)
		if err != nil {
			panic("viaOther rejected: " + err.Error())
		}
		return m
	}
	switch via % 8 {
	case 1:
		m := new(cors.Middleware)
		if via%16 >= 8 {
			wrappedOnce(m) // the handlers are wrapped while the middleware is still a passthrough one (lesson of seeded change C02-p)
		}
		c := cfg
		if err := m.Reconfigure(&c); err != nil {
			return nil, err
		}
		m.SetDebug(d)
		return m, nil
	case 2, 7:
		m := other()
		m.SetDebug(d)
		c := cfg
		if err := m.Reconfigure(&c); err != nil {
			return nil, err
		}
		if via%8 == 7 {
			c2 := cfg
			if err := m.Reconfigure(&c2); err != nil {
				return nil, err
			}
		}
		return m, nil
	case 3:
		m, err := cors.NewMiddleware(cfg)
		if err != nil {
			return nil, err
		}
		if via%16 >= 8 {
			m.SetDebug(true) // debug mode on, then passthrough (which switches it off for good), then configured again (lesson of seeded change C16-p)
		}
		if err := m.Reconfigure(nil); err != nil {
			return nil, err
		}
		if via%32 >= 16 {
			wrappedOnce(m)
		}
		c := cfg
		if err := m.Reconfigure(&c); err != nil {
			return nil, err
		}
		if d || via%16 < 8 {
			m.SetDebug(d) // otherwise debug mode is off already: turning the middleware into a passthrough one switched it off
		}
		return m, nil
	case 4:
		m, err := cors.NewMiddleware(cfg)
		if err != nil {
			return nil, err
		}
		m.SetDebug(d)
		c := cfg
		if err := m.Reconfigure(&c); err != nil {
			return nil, err
		}
		return m, nil
	case 5:
		m, err := cors.NewMiddleware(cfg)
		if err != nil {
			return nil, err
		}
		m.SetDebug(!d)
		if err := m.Reconfigure(m.Config()); err != nil {
			return nil, err
		}
		m.SetDebug(d)
		return m, nil
	case 6:
		m := other()
		m.SetDebug(true)
		c := cfg
		if err := m.Reconfigure(&c); err != nil {
			return nil, err
		}
		m.SetDebug(false)
		m.SetDebug(d)
		return m, nil
	}
	m, err := cors.NewMiddleware(cfg)
	if err != nil {
		return nil, err
	}
	m.SetDebug(d)
	return m, nil
}
