//go:build verif

package verifharness_test

import (
	"fmt"
	"sort"
	"strings"
	"testing"

	"github.com/jub0bs/cors"
	"github.com/jub0bs/cors/internal/headers"
	"github.com/jub0bs/cors/internal/util"
)

// S5 - ACRH approval spec, written from the statement of C14 (and the doc
// comment of the ACRH scanner): the elements of all field lines, in order,
// split on ','; each element ows{0,1} core ows{0,1}; at most 16 empty cores;
// non-empty cores are allowed names in strictly increasing order.
func specACRH(set map[string]bool, lines []string) bool {
	empties := 0
	last, haveLast := "", false
	for _, line := range lines {
		rest := line
		for {
			var el string
			if i := strings.IndexByte(rest, ','); i >= 0 {
				el, rest = rest[:i], rest[i+1:]
			} else {
				el, rest = rest, "\x00end"
			}
			core := el
			if len(core) > 0 && (core[0] == ' ' || core[0] == '\t') {
				core = core[1:]
			}
			if n := len(core); n > 0 && (core[n-1] == ' ' || core[n-1] == '\t') {
				core = core[:n-1]
			}
			if core == "" {
				empties++
				if empties > 16 {
					return false
				}
			} else {
				if core[0] == ' ' || core[0] == '\t' || core[len(core)-1] == ' ' || core[len(core)-1] == '\t' {
					return false
				}
				if !set[core] {
					return false
				}
				if haveLast && !(last < core) {
					return false
				}
				last, haveLast = core, true
			}
			if rest == "\x00end" {
				break
			}
		}
	}
	return true
}

type c14Case struct {
	Set   []string `json:"set"`
	Lines []string `json:"lines"`
	API   bool     `json:"via_public_api"`
}

type c14Set struct {
	names []string
	spec  map[string]bool
	ss    util.SortedSet
	mw    *cors.Middleware
	pna   bool // the middleware's configuration enables Private-Network Access (either mode)
	cred  bool
}

func newC14Set(names []string) *c14Set {
	s := &c14Set{names: names, spec: map[string]bool{}}
	for _, n := range names {
		s.spec[n] = true
		s.ss.Add(n)
	}
	return s
}

func (s *c14Set) middleware() *cors.Middleware {
	if s.mw == nil {
		// header names are case-insensitive: the configuration spells each name as is, in upper case, or with exactly one
		// letter in upper case (lesson of seeded change C14-l)
		spelled := make([]string, len(s.names))
		for i, n := range s.names {
			h := hashString(n+"|"+strings.Join(s.names, ",")) >> 7 // the spelling of a name varies from set to set
			switch h % 4 {
			case 0:
				spelled[i] = n
			case 1:
				spelled[i] = asciiUpper(n)
			default:
				if u := oneUpper(n, int(h>>2%64)); u != "" {
					spelled[i] = u
				} else {
					spelled[i] = n
				}
			}
		}
		// the fields AROUND the header list vary from set to set too: none of them has a say in which discrete names are
		// approved (lesson of seeded change C14-p: Authorization dropped from the set under credentials + wildcard methods)
		cfg := cors.Config{Origins: []string{"https://example.com"}, RequestHeaders: spelled}
		hc := hashString("cfg|" + strings.Join(s.names, ","))
		cfg.Credentialed = hc&1 == 1
		s.cred = cfg.Credentialed
		switch hc >> 1 % 3 {
		case 1:
			cfg.Methods = []string{"*"}
		case 2:
			cfg.Methods = []string{"PUT", "DELETE"}
		}
		switch hc >> 3 % 3 {
		case 1:
			cfg.MaxAgeInSeconds = -1
		case 2:
			cfg.MaxAgeInSeconds = 86400
		}
		if hc>>5&1 == 1 {
			cfg.ResponseHeaders = []string{"*"}
			if cfg.Credentialed {
				cfg.ResponseHeaders = []string{"X-Exposed"}
			}
		}
		if hc>>6&1 == 1 {
			cfg.PreflightSuccessStatus = 200
		}
		if hc>>7&1 == 1 {
			cfg.Origins = []string{"https://example.com", "https://*.example.org:*", "http://localhost:*"}
		}
		switch hc >> 8 % 4 { // Private-Network Access in either mode (the preflights then carry ACRPN half of the time)
		case 1:
			cfg.PrivateNetworkAccess = true
			s.pna = true
		case 2:
			cfg.PrivateNetworkAccessInNoCORSModeOnly = true
			s.pna = true
		}
		mw, err := cors.NewMiddleware(cfg)
		if err != nil {
			panic(fmt.Sprintf("C14: header set %q rejected: %v", s.names, err))
		}
		s.mw = mw
	}
	return s.mw
}

func c14RunCase(r *Run, l *Local, s *c14Set, lines []string, api bool) {
	want := specACRH(s.spec, lines)
	l.Eval()
	l.curA, l.curB = s.names, lines
	got := headers.Check(s.ss, lines)
	if want {
		l.n1++
	} else {
		l.n2++
	}
	if got != want {
		key := "over-approval"
		if want {
			key = "over-rejection"
		}
		r.Violate(key, "S5-vs-headers.Check", fmt.Sprintf("set=%q lines=%q: headers.Check=%v, specification=%v", s.names, lines, got, want), c14Case{s.names, lines, false})
	}
	if api {
		l.Eval()
		l.counters["public_api_preflights"]++
		mw := s.middleware()
		pnaSent := s.pna && hashString(strings.Join(lines, "\n"))&1 == 1
		o := serve(mw, preflightReq("https://example.com", "GET", append([]string(nil), lines...), pnaSent))
		gotAPI := o.ok2xx() && len(o.get(hACAO)) > 0
		if gotAPI && want {
			// approval has to be usable: the browser's preflight check (S3) passes for the names listed
			var names []string
			for _, line := range lines {
				for _, el := range strings.Split(line, ",") {
					if el = strings.Trim(el, " \t"); el != "" {
						names = append(names, el)
					}
				}
			}
			gotAPI = preflightGrants(o, "https://example.com", "GET", names, s.cred, pnaSent)
		}
		if gotAPI != want {
			key := "api-over-approval"
			if want {
				key = "api-over-rejection"
			}
			r.Violate(key, "S5-vs-preflight", fmt.Sprintf("set=%q lines=%q: preflight success=%v (%s), specification=%v", s.names, lines, gotAPI, o, want), c14Case{s.names, lines, true})
		}
	}
}

func nonNil(s []string) []string {
	if len(s) == 0 {
		return nil
	}
	return s
}

func equalStrings(a, b []string) bool {
	if len(a) != len(b) {
		return false
	}
	for i := range a {
		if a[i] != b[i] {
			return false
		}
	}
	return true
}

func TestVerif_C14(t *testing.T) {
	r := newRun(t, "C14")
	r.Rule("exhaustive: every string over {a,b,',',SP,HTAB} up to length N as 1 line and in every 2-line split, against 6 name sets; " +
		"structured: PRNG sets of prefix-related/long names x element atoms x OWS 0-3 x empties 0-20 x 1-4 lines; window-edge family; canonical-first-line family; enumerated strings up to length 6/7, 20% of the structured inputs and the whole canonical-first-line family also through NewMiddleware+preflight. " +
		"non-trivial = the input contains at least one allowed name as an element core (distinct by construction for the enumeration, by hash for sampled inputs)")
	r.Assume("specification S5 transcribes the statement of C14; the harness calls headers.Check with the same API the repository's own tests use")

	var rc c14Case
	if r.LoadReplay(nil, &rc) {
		l := r.newLocal(0)
		c14RunCase(r, l, newC14Set(rc.Set), rc.Lines, rc.API)
		r.merge(l)
		r.Finish(0)
		return
	}

	// ---- part 1: exhaustive small-alphabet enumeration
	alphabet := []byte{'a', 'b', ',', ' ', '\t'}
	maxLen := pick(r, 10, 12)
	apiLen := pick(r, 6, 7) // strings up to this length also go through NewMiddleware + preflight
	sets := [][]string{{"a"}, {"a", "b"}, {"ab"}, {"a", "ab", "b"}, {"b", "ba"}, {"aab", "b"}}
	// batches: fix the first 3 symbols (125 prefixes) per length
	type job struct{ n, prefix int }
	var jobs []job
	for n := 0; n <= maxLen; n++ {
		if n < 3 {
			jobs = append(jobs, job{n, -1})
			continue
		}
		for p := 0; p < 125; p++ {
			jobs = append(jobs, job{n, p})
		}
	}
	r.Parallel(len(jobs), func(l *Local) {
		j := jobs[l.Batch]
		css := make([]*c14Set, len(sets))
		for i, s := range sets {
			css[i] = newC14Set(s)
		}
		buf := make([]byte, j.n)
		idx := make([]int, j.n)
		free := j.n
		if j.prefix >= 0 {
			p := j.prefix
			for k := 0; k < 3; k++ {
				idx[k] = p % 5
				p /= 5
			}
			free = j.n - 3
		}
		lines1 := make([]string, 1)
		lines2 := make([]string, 2)
		for {
			for k := 0; k < j.n; k++ {
				buf[k] = alphabet[idx[k]]
			}
			s := string(buf)
			hasName := strings.ContainsAny(s, "ab")
			viaAPI := j.n <= apiLen
			for _, cs := range css {
				lines1[0] = s
				c14RunCase(r, l, cs, lines1, viaAPI)
				if hasName {
					l.nontrivN++
				}
				for cut := 0; cut <= len(s); cut++ {
					lines2[0], lines2[1] = s[:cut], s[cut:]
					c14RunCase(r, l, cs, lines2, viaAPI)
					if hasName {
						l.nontrivN++
					}
				}
			}
			// next
			k := j.n - 1
			lo := j.n - free
			for ; k >= lo; k-- {
				idx[k]++
				if idx[k] < 5 {
					break
				}
				idx[k] = 0
			}
			if k < lo {
				break
			}
		}
		if l.Batch == len(jobs)/2 {
			l.Sample("enumerated", c14Case{sets[3], []string{string(buf[:len(buf)/2]), string(buf[len(buf)/2:])}, false})
		}
	})
	r.Exhaustive(fmt.Sprintf("all strings over {a,b,',',SP,HTAB} of length 0..%d x {1 line, every 2-line split} x 6 name sets", maxLen))

	// ---- part 2: structured + window-edge, PRNG-determined
	nStruct := pick(r, 64, 1024)
	perBatch := pick(r, 4000, 20000)
	r.Parallel(nStruct, func(l *Local) {
		rng := l.Rng
		for i := 0; i < perBatch; i++ {
			// a name set with prefix-related and long names
			nNames := 1 + rng.IntN(6)
			if rng.IntN(6) == 0 {
				nNames = 7 + rng.IntN(9) // larger sets: searches beyond a handful of elements
			}
			base := []string{"x", "xa", "xab", "x-a", "content-type", "content-typ", "content-type2", "authorization", "z",
				strings.Repeat("k", 1+rng.IntN(40)), "x-" + strings.Repeat("q", rng.IntN(38)), "a", "b", "ab", "ba",
				// names around every power-of-two length (lesson of seeded change C14-jF: a length bitmask that wraps at 64)
				strings.Repeat("n", choose(rng, []int{31, 32, 33, 62, 63, 64, 65, 66, 100, 127, 128, 129, 200, 255, 256, 257, 300})),
				// ... and around 2^15 and 2^16 (lesson of seeded change C14-o: a scan window clamped to MaxInt16)
				"y-" + strings.Repeat("v", choose(rng, []int{32764, 32765, 32766, 32767, 40000, 65533, 65534, 65535, 70000})),
				"x-long-" + strings.Repeat("m", choose(rng, []int{24, 25, 26, 55, 56, 57, 58, 59, 120, 121, 122, 249, 250})),
				"accept", "accept-language", "content-language", "range",
				// names that do not start with a letter (lesson of seeded change C14-n): digits and every special token byte
				"1st-party-id", "9", "_csrf-token", "!bang", "~tilde", "-dash", "*star", "#hash", "$dollar", "%pct", "&amp", "'quote", "+plus", ".dot", "^caret", "`tick", "|pipe",
				"x-m-aa", "x-m-ab", "x-m-b", "x-m-ba", "x-m-c", "x-m-ca", "x-m-d", "x-m-e", "x-m-f", "x-m-g", "x-m-h"}
			seen := map[string]bool{}
			var names []string
			for len(names) < nNames {
				n := choose(rng, base)
				if !seen[n] {
					seen[n] = true
					names = append(names, n)
				}
			}
			cs := newC14Set(names)
			sorted := append([]string(nil), names...)
			sort.Strings(sorted)
			maxName := 0
			for _, n := range names {
				maxName = max(maxName, len(n))
			}
			var elems []string
			mode := rng.IntN(10)
			switch {
			case mode < 5: // browser-like list with perturbations
				for _, n := range sorted {
					if rng.IntN(4) > 0 {
						elems = append(elems, n)
					}
				}
				// perturbations
				for k := rng.IntN(3); k > 0 && len(elems) > 0; k-- {
					p := rng.IntN(len(elems))
					switch rng.IntN(9) {
					case 0:
						elems[p] = strings.ToUpper(elems[p])
					case 1:
						if len(elems[p]) > 0 {
							elems[p] = elems[p][:len(elems[p])-1]
						}
					case 2:
						elems[p] = elems[p] + string("abz-\x00\xff"[rng.IntN(6)])
					case 3:
						q := rng.IntN(len(elems))
						elems[p], elems[q] = elems[q], elems[p]
					case 4:
						elems = append(elems[:p+1], elems[p:]...) // repeat
					case 5:
						elems[p] = choose(rng, []string{"junk", "\x00", "\xff\xfe", "a b", "a\tb", "*", "x,", ""})
					case 6:
						elems[p] = strings.Repeat("y", maxName+rng.IntN(4))
					case 7:
						elems[p] = choose(rng, base)
					}
				}
			case mode < 8: // window-edge family: element sized so that the comma sits on / inside / outside the window
				good := choose(rng, sorted)
				edge := strings.Repeat("w", maxName+rng.IntN(5)-1)
				elems = []string{good, edge, choose(rng, sorted)}
				if rng.IntN(2) == 0 {
					elems = []string{choose(rng, sorted) + strings.Repeat(" ", rng.IntN(4)), choose(rng, sorted)}
				}
				if rng.IntN(3) == 0 {
					sort.Strings(elems)
				}
			default: // random atoms
				for k := rng.IntN(6); k > 0; k-- {
					elems = append(elems, choose(rng, append(base, "", " ", "\t", "junk")))
				}
			}
			// OWS and empties
			var sb []string
			totalEmpties := 0
			emptyBudget := choose(rng, []int{0, 0, 0, 1, 2, 5, 15, 16, 17, 20})
			for _, e := range elems {
				for totalEmpties < emptyBudget && rng.IntN(3) == 0 {
					sb = append(sb, choose(rng, []string{"", "", " ", "\t", "  ", " \t", "   "}))
					totalEmpties++
				}
				lo := choose(rng, []int{0, 0, 0, 1, 1, 2, 3})
				ro := choose(rng, []int{0, 0, 0, 1, 1, 2, 3})
				ws := func(n int) string {
					b := make([]byte, n)
					for i := range b {
						b[i] = " \t"[rng.IntN(2)]
					}
					return string(b)
				}
				sb = append(sb, ws(lo)+e+ws(ro))
			}
			for totalEmpties < emptyBudget {
				sb = append(sb, "")
				totalEmpties++
			}
			// split into 1-4 lines (incl. empty lines)
			nLines := 1 + rng.IntN(4)
			lines := make([]string, 0, nLines)
			if len(sb) == 0 {
				for k := 0; k < nLines; k++ {
					lines = append(lines, "")
				}
			} else {
				cuts := map[int]bool{}
				for k := 1; k < nLines; k++ {
					cuts[rng.IntN(len(sb)+1)] = true
				}
				cur := []string{}
				for k, e := range sb {
					if cuts[k] {
						lines = append(lines, strings.Join(cur, ","))
						cur = []string{}
					}
					cur = append(cur, e)
				}
				lines = append(lines, strings.Join(cur, ","))
				if cuts[len(sb)] {
					lines = append(lines, "")
				}
			}
			api := rng.IntN(5) == 0
			c14RunCase(r, l, cs, lines, api)
			joined := strings.Join(lines, "\n")
			for _, n := range names {
				if strings.Contains(joined, n) {
					l.NontrivialKey(strings.Join(names, ","), joined)
					break
				}
			}
			if i < 2 && l.Batch < 2 {
				l.Sample("structured", c14Case{names, lines, api})
			}
		}
	})

	// ---- part 2b: first field line = the complete canonical list (what the middleware precomputes for debug mode),
	// followed by lines that are fine or carry a violation - all through the public API
	r.Parallel(pick(r, 8, 64), func(l *Local) {
		rng := l.Rng
		pool := []string{"x", "xa", "xab", "x-a", "content-type", "content-typ", "x-listed-1", "x-listed-2", "authorization", "z", "a", "b", "ab",
			"accept", "accept-language", "content-language", "range", "if-none-match"}
		for i := 0; i < pick(r, 400, 3000); i++ {
			n := 1 + rng.IntN(4)
			seen := map[string]bool{}
			var names []string
			for len(names) < n {
				x := choose(rng, pool)
				if !seen[x] {
					seen[x] = true
					names = append(names, x)
				}
			}
			cs := newC14Set(names)
			sorted := append([]string(nil), names...)
			sort.Strings(sorted)
			full := strings.Join(sorted, ",")
			tails := [][]string{{"x-evil"}, {sorted[0]}, {sorted[len(sorted)-1]}, {strings.Repeat(",", 20)}, {"  " + sorted[0]}, {""}, {"", ""}, {"zzzz"},
				{sorted[len(sorted)-1] + ",x-evil"}, {strings.ToUpper(sorted[0])}, {"x-evil", sorted[0]}}
			for _, tail := range tails {
				for _, first := range []string{full, full + ",", " " + full, full + " ", strings.Join(sorted[:len(sorted)-1+rng.IntN(2)], ",")} {
					lines := append([]string{first}, tail...)
					c14RunCase(r, l, cs, lines, true)
					l.NontrivialKey(full, strings.Join(lines, "\n"))
				}
			}
			if l.Batch == 0 && i == 0 {
				l.Sample("canonical-first-line", c14Case{names, []string{full, "x-evil"}, true})
			}
		}
	})

	// ---- part 2c: one foreign byte adjacent to an allowed name - every byte value, left / right / both, alone and
	// next to a legitimate OWS byte, as the only element and between other elements (through the public API as well)
	r.Parallel(1, func(l *Local) {
		cs := newC14Set([]string{"x-foo", "content-type"})
		for v := 0; v < 256; v++ {
			b := string([]byte{byte(v)})
			for _, el := range []string{b + "x-foo", "x-foo" + b, b + "x-foo" + b, " " + b + "x-foo", "x-foo" + b + " ", b + " x-foo", "x-foo " + b, b, b + b} {
				for _, lines := range [][]string{{el}, {"content-type," + el}, {"content-type", el}, {el + ",zzz"}} {
					c14RunCase(r, l, cs, lines, true)
					l.nontrivN++
				}
			}
		}
	})
	r.Exhaustive("every byte value placed left / right / on both sides of an allowed name (9 placements x 4 contexts), through headers.Check and the public API")

	// ---- part 3: 16 vs 17 empties across lines, every distribution over up to 3 lines around one name
	r.Parallel(1, func(l *Local) {
		cs := newC14Set([]string{"a", "b"})
		for total := 14; total <= 18; total++ {
			for l1 := 0; l1 <= total; l1++ {
				for l2 := 0; l1+l2 <= total; l2++ {
					l3 := total - l1 - l2
					// k commas in a line make k+1 empty elements; an empty line is one empty element
					mk := func(empties int, name string) string {
						if empties == 0 {
							return name
						}
						if name == "" {
							return strings.Repeat(",", empties-1)
						}
						return strings.Repeat(",", empties) + name
					}
					lines := []string{mk(l1, "a"), mk(l2, "b"), mk(l3, "")}
					if l3 == 0 {
						lines = lines[:2]
					}
					c14RunCase(r, l, cs, lines, true)
					l.nontrivN++
				}
			}
		}
	})
	r.Exhaustive("every distribution of 14..18 empty elements over 3 field lines around two allowed names (through the public API as well)")

	r.mu.Lock()
	ap, rj := r.counters["n1"], r.counters["n2"]
	r.counters["spec_approved"], r.counters["spec_rejected"] = ap, rj
	delete(r.counters, "n1")
	delete(r.counters, "n2")
	r.mu.Unlock()
	if r.Phase != "coverage" && (ap < 1000 || rj < 1000) {
		r.Inconclusive(fmt.Sprintf("verdict distribution too skewed: approved=%d rejected=%d", ap, rj))
	}
	r.Finish(1000)
}
