//go:build verif

package verifharness_test

import (
	"fmt"
	"math/rand/v2"
	"net/http"
	"sort"
	"strconv"
	"strings"
	"sync"
	"testing"

	"github.com/jub0bs/cors"
)

// C12 - behaviour is immune to caller-side mutation and to request history.
// Golden-comparison monitor: after every adversarial step, probes must be
// answered exactly as a fresh, never-touched middleware of the same
// configuration and debug mode answers them.

type c12Step struct {
	Kind string `json:"kind"`
	Arg  int    `json:"arg,omitempty"`
}

type c12Case struct {
	Specs []*CfgSpec `json:"specs"` // middlewares alive: 0 and 1 share one Config value, 2 has Specs[1]
	Debug bool       `json:"debug"`
	Steps []c12Step  `json:"steps"` // the whole history (a replay runs all of it, probing after every step)
	Seed  uint64     `json:"poison_seed"`
	// Canon: the Config values handed to the middlewares are the CANONICAL form of the specs (what another middleware's
	// Config() returns: sorted, lower-cased, deduplicated lists) instead of the lists as written
	// (lesson of seeded change C12-h: an argument adopted without copying only when it already is in internal form)
	Canon bool `json:"canonical_arguments,omitempty"`
	// FailedAfter is the number of steps after which the mismatch was first seen (0 = before any step of this
	// world: another world running in parallel poisoned process-wide state)
	FailedAfter int `json:"failed_after"`
}

func poisonStrings(s []string, tag string) {
	for i := range s {
		s[i] = "POISON-" + tag + "-" + strconv.Itoa(i)
	}
	// within capacity, beyond length
	full := s[:cap(s)]
	for i := len(s); i < len(full); i++ {
		full[i] = "POISON-CAP-" + tag
	}
}

func poisonConfig(cfg *cors.Config, tag string) {
	if cfg == nil {
		return
	}
	poisonStrings(cfg.Origins, tag+"o")
	poisonStrings(cfg.Methods, tag+"m")
	poisonStrings(cfg.RequestHeaders, tag+"q")
	poisonStrings(cfg.ResponseHeaders, tag+"r")
	// re-slice and grow
	cfg.Origins = append(cfg.Origins[:0], "https://poison.invalid", "*")
	cfg.Methods = append(cfg.Methods, "POISONMETHOD")
	cfg.RequestHeaders = append(cfg.RequestHeaders[:0], "X-Poison")
	cfg.ResponseHeaders = nil
	cfg.Credentialed = !cfg.Credentialed
	cfg.MaxAgeInSeconds = 77
	cfg.PreflightSuccessStatus = 299
	// every scalar of the embedded ExtraConfig as well (lesson of seeded change C12-i: a retained pointer to the
	// caller's struct instead of a retained slice)
	cfg.PrivateNetworkAccess = !cfg.PrivateNetworkAccess
	cfg.PrivateNetworkAccessInNoCORSModeOnly = !cfg.PrivateNetworkAccessInNoCORSModeOnly && !cfg.PrivateNetworkAccess
	cfg.DangerouslyTolerateInsecureOrigins = !cfg.DangerouslyTolerateInsecureOrigins
	cfg.DangerouslyTolerateSubdomainsOfPublicSuffixes = !cfg.DangerouslyTolerateSubdomainsOfPublicSuffixes
}

// poisonHandler is a wrapped handler that overwrites in place every element of every
// request-header and response-header slice it can reach (and the capacity beyond).
type poisonHandler struct{ calls int }

func (p *poisonHandler) ServeHTTP(w http.ResponseWriter, r *http.Request) {
	p.calls++
	for k, v := range r.Header {
		poisonStrings(v, "req"+k)
	}
	for k, v := range w.Header() {
		poisonStrings(v, "res"+k)
	}
	w.Write([]byte("ok"))
}

func servePoison(mw *cors.Middleware, q Req) {
	w := newRW()
	w.inner = &poisonHandler{}
	wrappedOnce(mw).ServeHTTP(w, q.httpReq())
}

// poisonRound sends the non-preflight request kinds through mw with a wrapped handler that overwrites, in place,
// every header slice it can reach. On code that satisfies C12 this changes nothing; checks of other properties call
// it before their own observations so that shared state installed on handler-visible paths shows up there too.
func poisonRound(mw *cors.Middleware, allowedOrigin string) {
	for _, q := range []Req{
		buildReq("GET", nil, nil, nil, nil, nil),
		buildReq("OPTIONS", nil, nil, nil, nil, nil),
		actualReq("GET", allowedOrigin),
		actualReq("OPTIONS", allowedOrigin),
		actualReq("POST", "https://never-allowed.invalid"),
	} {
		servePoison(mw, q)
	}
	// exchanges that end in a PANIC which an outer layer recovers (net/http does that for every connection): the
	// ResponseWriter's WriteHeader panics while the middleware answers a preflight; the wrapped handler panics. Whatever the
	// middleware borrowed for such an exchange must not come back dirty
	// (lesson of seeded change C03-q: a pooled scratch map cleared only after WriteHeader returned)
	for _, q := range []Req{
		preflightReq(allowedOrigin, "GET", nil, false),
		preflightReq(allowedOrigin, "PUT", []string{"x-listed-1"}, true),
		preflightReq(allowedOrigin, "VERIFUNLISTED", []string{"authorization", "x-never-listed"}, false),
		actualReq("GET", allowedOrigin),
	} {
		servePanicking(mw, q)
	}
}

type panickingWriter struct{ *rw }

func (w panickingWriter) WriteHeader(int) { panic("verif: the connection is gone") }

type panickingHandler struct{}

func (panickingHandler) ServeHTTP(http.ResponseWriter, *http.Request) {
	panic(http.ErrAbortHandler)
}

func servePanicking(mw *cors.Middleware, q Req) {
	defer func() { _ = recover() }()
	w := newRW()
	w.inner = panickingHandler{}
	wrappedOnce(mw).ServeHTTP(panickingWriter{w}, q.httpReq())
}

type c12World struct {
	specs   []*CfgSpec
	mws     []*cors.Middleware
	cfgs    []*cors.Config // the Config values handed to NewMiddleware (kept to be poisoned later)
	suites  [][]Req
	goldens [][]Obs // per middleware: answers of a fresh, never-touched twin in the chosen debug mode
	debug   bool
	cur     []*CfgSpec // configuration each middleware currently has (changes with the retarget step)
	base    []*CfgSpec
	isAlt   []bool
	// outerWritten: set when a header slice that an outer layer shares between its responses was found modified
	outerWritten string
}

// sharedArg reports whether another middleware of the world was built from the same Config object as middleware i.
func (w *c12World) sharedArg(i int) bool {
	for j := range w.cfgs {
		if j != i && w.cfgs[j] == w.cfgs[i] {
			return true
		}
	}
	return false
}

// c12OuterShared: response-header slices that an outer layer installs, unchanged, into every response it decorates
// (capacity == length: appending reallocates; nobody downstream may write into them)
var c12OuterPristine = map[string][]string{hVary: {"Accept-Encoding", "Cookie"}, "X-Served-By": {"outer"}}

// altSpec returns a valid configuration with lists of exactly the same lengths as c but other values
// (every pattern secure, so it is valid under any switch combination c is valid under).
func altSpec(c *CfgSpec) *CfgSpec {
	d := *c
	d.Origins = make([]OAtom, len(c.Origins))
	for i, a := range c.Origins {
		switch {
		case a.Kind == oStar:
			d.Origins[i] = a
		case i%3 == 0:
			d.Origins[i] = oPat(PatSpec{Scheme: "https", Host: "alt" + strconv.Itoa(i) + ".example"}, false, false)
		case i%3 == 1:
			d.Origins[i] = oPat(PatSpec{Scheme: "https", Subs: true, Host: "alt" + strconv.Itoa(i) + ".example", Port: 8443}, false, false)
		default:
			d.Origins[i] = oPat(PatSpec{Scheme: "https", Host: "alt" + strconv.Itoa(i) + ".example", Port: portAny}, false, false)
		}
	}
	d.Methods = make([]MAtom, len(c.Methods))
	for i, a := range c.Methods {
		if a.Kind == mValid {
			a = MAtom{"ALT" + strconv.Itoa(i), mValid, "ALT" + strconv.Itoa(i)}
		}
		d.Methods[i] = a
	}
	d.ReqHdrs = make([]HAtom, len(c.ReqHdrs))
	for i, a := range c.ReqHdrs {
		if a.Kind == hValid {
			a = hv("X-Alt-" + strconv.Itoa(i))
		}
		d.ReqHdrs[i] = a
	}
	d.RespHdrs = make([]HAtom, len(c.RespHdrs))
	for i, a := range c.RespHdrs {
		if a.Kind == hValid {
			a = hv("X-AltExp-" + strconv.Itoa(i))
		}
		d.RespHdrs[i] = a
	}
	return &d
}

func newC12World(specs []*CfgSpec, debug bool, canon bool) (*c12World, error) {
	w := &c12World{specs: specs, debug: debug}
	w.base = []*CfgSpec{specs[0], specs[0], specs[1]}
	w.cur = []*CfgSpec{specs[0], specs[0], specs[1]}
	w.isAlt = []bool{false, false, false}
	shared := specs[0].Config()
	other := specs[1].Config()
	if canon {
		for _, p := range []*cors.Config{&shared, &other} {
			helper, err := cors.NewMiddleware(*p)
			if err != nil {
				return nil, err
			}
			*p = *helper.Config()
		}
	}
	build := []*cors.Config{&shared, &shared, &other}
	semOf := []*Sem{specs[0].Sem(), specs[0].Sem(), specs[1].Sem()}
	for i, cfg := range build {
		var m *cors.Middleware
		var err error
		switch i {
		case 1:
			m = new(cors.Middleware)
			err = m.Reconfigure(cfg)
		case 2: // reached from another configuration, in debug mode, through passthrough
			m, err = cors.NewMiddleware(viaOther)
			if err == nil {
				m.SetDebug(true)
				if err = m.Reconfigure(cfg); err == nil {
					if err = m.Reconfigure(nil); err == nil {
						err = m.Reconfigure(cfg)
					}
				}
			}
		default:
			m, err = cors.NewMiddleware(*cfg)
		}
		if err != nil {
			return nil, err
		}
		m.SetDebug(debug)
		w.mws = append(w.mws, m)
		w.cfgs = append(w.cfgs, cfg)
		suite := suiteFor(semOf[i])
		w.suites = append(w.suites, suite)
		// golden: a fresh middleware from an independent Config value
		var fresh *cors.Middleware
		if i < 2 {
			fresh, err = cors.NewMiddleware(specs[0].Config())
		} else {
			fresh, err = cors.NewMiddleware(specs[1].Config())
		}
		if err != nil {
			return nil, err
		}
		fresh.SetDebug(debug)
		w.goldens = append(w.goldens, runSuiteAsIs(fresh, suite))
	}
	return w, nil
}

var c12Kinds = []string{"requests-behind-sharing-outer-layer", "retarget-via-mutated-arg", "poison-config-arg", "poison-config-result", "poison-handler-actual", "poison-handler-noncors", "poison-handler-options",
	"requests", "reconfigure-same-then-poison", "config-result-append", "poison-handler-multi-origin"}

func (w *c12World) apply(st c12Step, rng *rand.Rand) {
	i := st.Arg % len(w.mws)
	m := w.mws[i]
	suite := w.suites[i]
	switch st.Kind {
	case "poison-config-arg":
		poisonConfig(w.cfgs[i], "arg")
	case "poison-config-result":
		poisonConfig(m.Config(), "res")
	case "config-result-append":
		c := m.Config()
		if c != nil {
			c.Origins = append(c.Origins, "https://appended.invalid")
			c.RequestHeaders = append(c.RequestHeaders, "x-appended")
			c.Methods = append(c.Methods, "APPENDED")
			c.ResponseHeaders = append(c.ResponseHeaders, "x-appended")
			if len(c.Origins) > 0 {
				c.Origins[0] = "*"
			}
		}
	case "poison-handler-actual":
		for _, q := range suite {
			if q.Method != "OPTIONS" && len(q.Header[hOrigin]) > 0 {
				servePoison(m, q)
			}
		}
	case "poison-handler-noncors":
		servePoison(m, buildReq("GET", nil, nil, nil, nil, map[string][]string{"X-Other": {"a", "b"}}))
		servePoison(m, buildReq("OPTIONS", nil, nil, nil, nil, nil))
	case "poison-handler-options":
		for _, q := range suite {
			if q.Method == "OPTIONS" && !isPreflightReq(q) {
				servePoison(m, q)
			}
		}
	case "poison-handler-multi-origin":
		for _, q := range suite {
			if q.Method != "OPTIONS" && len(q.Header[hOrigin]) > 0 {
				q2 := q.clone()
				q2.Header[hOrigin] = append(q2.Header[hOrigin], "https://second.invalid")
				servePoison(m, q2)
			}
		}
	case "requests":
		for k := 0; k < 12; k++ {
			serve(m, suite[rng.IntN(len(suite))])
		}
	case "requests-behind-sharing-outer-layer":
		// an outer layer that puts the SAME slices into every response (lesson of seeded change C12-jJ)
		shared := map[string][]string{}
		for k, v := range c12OuterPristine {
			shared[k] = append(make([]string, 0, len(v)), v...)
		}
		for _, q := range suite {
			inner := &countingHandler{body: "ok"}
			rwr := newRW()
			rwr.inner = inner
			for k, v := range shared {
				rwr.h[k] = v
			}
			wrappedOnce(m).ServeHTTP(rwr, q.httpReq())
			for k, v := range c12OuterPristine {
				if !equalStrings(shared[k], v) && w.outerWritten == "" {
					w.outerWritten = fmt.Sprintf("after %s the %s slice %q that an outer layer shares between its responses reads %q", reqString(q), k, v, shared[k])
				}
			}
		}
	case "reconfigure-same-then-poison":
		cfg := w.cur[i].Config()
		if err := m.Reconfigure(&cfg); err == nil {
			poisonConfig(&cfg, "re")
		}
	case "retarget-via-mutated-arg":
		// the caller overwrites, in place and element by element, the slices of the Config it handed in last with the
		// values of another valid configuration of the same list lengths, then reconfigures to that configuration
		// (from a fresh value): from now on the middleware must answer like a fresh middleware of the NEW configuration
		target := altSpec(w.base[i])
		if w.isAlt[i] {
			target = w.base[i]
		}
		tcfg := target.Config()
		fresh, err := cors.NewMiddleware(target.Config())
		if err != nil {
			return // not a valid target under these switches: skip
		}
		if old := w.cfgs[i]; old != nil {
			if len(old.Origins) == len(tcfg.Origins) {
				copy(old.Origins, tcfg.Origins)
			}
			if len(old.Methods) == len(tcfg.Methods) {
				copy(old.Methods, tcfg.Methods)
			}
			if len(old.RequestHeaders) == len(tcfg.RequestHeaders) {
				copy(old.RequestHeaders, tcfg.RequestHeaders)
			}
			if len(old.ResponseHeaders) == len(tcfg.ResponseHeaders) {
				copy(old.ResponseHeaders, tcfg.ResponseHeaders)
			}
		}
		// how the new configuration is handed in: a fresh value; or - when every list could be overwritten in place - the
		// very Config object that was handed in before, now holding the new values (lesson of seeded changes C01-o / C07-o:
		// "nothing changed since last time" judged against memory that the caller owns)
		arg := &tcfg
		if old := w.cfgs[i]; old != nil && st.Arg/3%2 == 1 && len(old.Origins) == len(tcfg.Origins) && len(old.Methods) == len(tcfg.Methods) &&
			len(old.RequestHeaders) == len(tcfg.RequestHeaders) && len(old.ResponseHeaders) == len(tcfg.ResponseHeaders) && !w.sharedArg(i) {
			scalars := tcfg
			scalars.Origins, scalars.Methods, scalars.RequestHeaders, scalars.ResponseHeaders = old.Origins, old.Methods, old.RequestHeaders, old.ResponseHeaders
			*old = scalars
			arg = old
		}
		// preceded, sometimes, by a burst of k-1 reconfigurations with the CURRENT configuration, so that this one is the
		// k-th state change since the last request (lesson of seeded changes C06-o / C12-o: generation counters that wrap)
		burst := []int{0, 0, 0, 0, 255, 256, 511}[st.Arg/6%7]
		if st.Arg == 125 && len(w.cur[i].Origins) < 6 {
			burst = 65535
		}
		if burst > 0 {
			cur := w.cur[i].Config()
			for k := 0; k < burst; k++ {
				c := cur
				if err := m.Reconfigure(&c); err != nil {
					break
				}
			}
		}
		if err := m.Reconfigure(arg); err != nil {
			return
		}
		fresh.SetDebug(w.debug)
		// middlewares 0 and 1 were built from ONE shared Config value; after a retarget each owns its argument
		if arg == &tcfg {
			w.cfgs[i] = &tcfg
		}
		w.cur[i] = target
		w.isAlt[i] = !w.isAlt[i]
		w.suites[i] = suiteFor(target.Sem())
		w.goldens[i] = runSuiteAsIs(fresh, w.suites[i])
	}
}

// probe compares the answers of every middleware to (a slice of) its suite with the golden answers.
func (w *c12World) probe(r *Run, l *Local, cs c12Case, upto int, full bool, rng *rand.Rand) bool {
	if w.outerWritten != "" {
		c := cs
		c.FailedAfter = upto
		r.Violate("outer-slice-written", "golden", fmt.Sprintf("after steps %v: %s - the response to a later request through that layer depends on an earlier request", stepNames(cs.Steps[:upto]), w.outerWritten), c)
		return false
	}
	for i, m := range w.mws {
		suite := w.suites[i]
		n := len(suite)
		idx := make([]int, 0, n)
		if full {
			for k := 0; k < n; k++ {
				idx = append(idx, k)
			}
		} else {
			for k := 0; k < 10; k++ {
				idx = append(idx, rng.IntN(n))
			}
		}
		for _, k := range idx {
			got := serve(m, suite[k])
			l.evals++
			if !got.Equal(w.goldens[i][k]) {
				c := cs
				c.FailedAfter = upto
				r.Violate("golden-mismatch", "golden", fmt.Sprintf("after steps %v (debug=%v), middleware %d answers %s with %s; a fresh middleware of the same configuration answers %s",
					stepNames(cs.Steps[:upto]), cs.Debug, i, reqString(suite[k]), got, w.goldens[i][k]), c)
				return false
			}
		}
	}
	return true
}

func stepNames(s []c12Step) []string {
	out := make([]string, len(s))
	for i, x := range s {
		out[i] = x.Kind + "@" + strconv.Itoa(x.Arg%3)
	}
	return out
}

func c12RunHistory(r *Run, l *Local, cs c12Case) {
	l.cur = func() any { return cs }
	w, err := newC12World(cs.Specs, cs.Debug, cs.Canon)
	if err != nil {
		return // C05's business
	}
	rng := rand.New(rand.NewPCG(cs.Seed, 12))
	if !w.probe(r, l, cs, 0, true, rng) {
		return
	}
	for i, st := range cs.Steps {
		w.apply(st, rng)
		l.counters["step_"+st.Kind]++
		if !w.probe(r, l, cs, i+1, i == len(cs.Steps)-1, rng) {
			return
		}
	}
}

func TestVerif_C12(t *testing.T) {
	r := newRun(t, "C12")
	r.Rule("worlds of three live middlewares, built from configurations as written or (half of the worlds) from their canonical form as returned by another middleware's Config(), a quarter of them with lists of 9-40 elements (two built from one shared Config value - one by NewMiddleware, one by Reconfigure on a zero value - and one with another configuration, reached by reconfiguring a middleware of a third configuration through passthrough) x debug x histories of adversarial steps: overwrite/re-slice/grow every slice of the Config argument after the call, of every Config() result, " +
		"a wrapped handler overwriting in place (and beyond length, within capacity) every request- and response-header slice it can reach on every non-preflight path, ordinary requests of all kinds, requests behind an outer layer that installs the same Vary / X-Served-By slices into every response (which must stay intact), Reconfigure with an equal configuration that is poisoned afterwards, and retargeting (the caller overwrites the slices it handed in with the values of another valid configuration of the same list lengths, then reconfigures to that configuration). After every step probes are compared with the answers of a fresh never-touched middleware (full suite after the last step). " +
		"evaluation = one probe; non-trivial = distinct (world, history), by hash; every (step kind) x (probe kind) pair occurs. The race phase hammers shared middlewares from 16 goroutines under -race.")
	r.Assume("the wrapped handler is the only adversary inside the request path: what a custom ResponseWriter or an outer middleware could reach on the preflight path (where the wrapped handler never runs) is outside the statement of C12")

	var rc c12Case
	if r.LoadReplay(nil, &rc) {
		l := r.newLocal(0)
		c12RunHistory(r, l, rc)
		r.merge(l)
		r.Finish(0)
		return
	}
	prod, _ := c02Product()
	if r.IsRace() {
		c12Race(r, prod)
		r.Finish(0)
		return
	}
	c12SeparatorTwins(r)
	nb := pick(r, 64, 1024)
	per := pick(r, 12, 40)
	nSteps := pick(r, 30, 50)
	r.Parallel(nb, func(l *Local) {
		rng := l.Rng
		for i := 0; i < per; i++ {
			pickSpec := func() *CfgSpec {
				switch rng.IntN(4) {
				case 0, 1:
					return prod[rng.IntN(len(prod))]
				case 2:
					return randLongListsCfg(rng)
				}
				return randRichValidCfg(rng)
			}
			cs := c12Case{Specs: []*CfgSpec{pickSpec(), pickSpec()}, Debug: rng.IntN(2) == 0, Seed: rng.Uint64(), Canon: rng.IntN(2) == 0}
			if cs.Canon {
				l.counters["worlds_with_canonical_arguments"]++
			}
			// every step kind at least once, then PRNG
			for _, k := range shuffled(rng, c12Kinds) {
				cs.Steps = append(cs.Steps, c12Step{k, rng.IntN(126)})
			}
			for len(cs.Steps) < nSteps {
				cs.Steps = append(cs.Steps, c12Step{choose(rng, c12Kinds), rng.IntN(126)})
			}
			c12RunHistory(r, l, cs)
			l.NontrivialKey(specKey(cs.Specs[0]), specKey(cs.Specs[1]), fmt.Sprint(cs.Debug, cs.Seed))
			if l.Batch == 0 && i == 0 {
				l.Sample("history", map[string]any{"debug": cs.Debug, "steps": stepNames(cs.Steps), "config0": cfgJSONOf(cs.Specs[0]), "config1": cfgJSONOf(cs.Specs[1])})
			}
		}
	})
	r.Finish(300)
}

func cfgJSONOf(c *CfgSpec) map[string]any {
	cfg := c.Config()
	return cfgJSON(&cfg)
}

// c12Race: shared middlewares answered from 16 goroutines while other goroutines run the
// poisoning handler and mutate Config() results; the race detector is the monitor, plus golden comparison.
func c12Race(r *Run, prod []*CfgSpec) {
	worlds := 24
	r.ParallelN(4, worlds, func(l *Local) {
		rng := l.Rng
		specs := []*CfgSpec{prod[rng.IntN(len(prod))], randRichValidCfg(rng)}
		w, err := newC12World(specs, rng.IntN(2) == 0, rng.IntN(2) == 0)
		if err != nil {
			return
		}
		cs := c12Case{Specs: specs, Debug: w.debug}
		var wg sync.WaitGroup
		for g := 0; g < 16; g++ {
			wg.Add(1)
			go func(g int) {
				defer wg.Done()
				lr := rand.New(rand.NewPCG(uint64(g), uint64(l.Batch)))
				for it := 0; it < 300; it++ {
					i := lr.IntN(len(w.mws))
					suite := w.suites[i]
					k := lr.IntN(len(suite))
					switch {
					case g%4 == 0:
						servePoison(w.mws[i], suite[k])
					case g%4 == 1 && it%10 == 0:
						poisonConfig(w.mws[i].Config(), "race")
					default:
						got := serve(w.mws[i], suite[k])
						if !got.Equal(w.goldens[i][k]) {
							r.Violate("golden-mismatch", "golden-concurrent", fmt.Sprintf("under concurrent poisoning, middleware %d answers %s with %s; golden %s", i, reqString(suite[k]), got, w.goldens[i][k]), cs)
							return
						}
					}
				}
			}(g)
		}
		wg.Wait()
		l.evals += 16 * 300
		l.nontrivN++
	})
}

// c12SeparatorTwins: pairs of DIFFERENT valid configurations whose lists become equal when their elements are joined with
// a byte that is legal inside a token (`|`, `!`, `~`, ...): an element moved across the boundary of two adjacent lists, or
// two elements merged into one. Both are built in this process, in both orders, next to each other; each middleware
// must answer according to ITS configuration (lesson of seeded change C12-n: a process-wide cache of internal
// configurations keyed by a lossy rendering of the Config).
func c12SeparatorTwins(r *Run) {
	if r.Replaying() {
		return
	}
	seps := []string{"|", "!", "#", "$", "%", "&", "'", "*", "+", "-", ".", "^", "_", "`", "~"}
	r.Parallel(len(seps), func(l *Local) {
		sep := seps[l.Batch]
		base := func() cors.Config {
			return cors.Config{Origins: []string{"https://example.com"}, MaxAgeInSeconds: 30}
		}
		type pair struct{ a, b cors.Config }
		var pairs []pair
		mk := func(f func(c *cors.Config)) cors.Config { c := base(); f(&c); return c }
		// element moved across Methods | RequestHeaders, RequestHeaders | ResponseHeaders
		pairs = append(pairs,
			pair{mk(func(c *cors.Config) { c.Methods = []string{"PUT"}; c.RequestHeaders = []string{"x-a" + sep + "x-b"} }),
				mk(func(c *cors.Config) { c.Methods = []string{"PUT" + sep + "x-a"}; c.RequestHeaders = []string{"x-b"} })},
			pair{mk(func(c *cors.Config) {
				c.RequestHeaders = []string{"x-a"}
				c.ResponseHeaders = []string{"x-b" + sep + "x-c"}
			}),
				mk(func(c *cors.Config) {
					c.RequestHeaders = []string{"x-a" + sep + "x-b"}
					c.ResponseHeaders = []string{"x-c"}
				})},
			// two elements merged into one
			pair{mk(func(c *cors.Config) { c.RequestHeaders = []string{"x-a", "x-b"} }), mk(func(c *cors.Config) { c.RequestHeaders = []string{"x-a" + sep + "x-b"} })},
			pair{mk(func(c *cors.Config) { c.Methods = []string{"PUT", "PATCH"} }), mk(func(c *cors.Config) { c.Methods = []string{"PATCH" + sep + "PUT"} })},
			pair{mk(func(c *cors.Config) { c.ResponseHeaders = []string{"x-a", "x-b"} }), mk(func(c *cors.Config) { c.ResponseHeaders = []string{"x-a" + sep + "x-b"} })},
		)
		for pi, p := range pairs {
			for order := 0; order < 2; order++ {
				first, second := p.a, p.b
				if order == 1 {
					first, second = p.b, p.a
				}
				m1, err1 := cors.NewMiddleware(first)
				var m2 cors.Middleware
				err2 := m2.Reconfigure(&second)
				l.evals++
				l.counters["separator_twin_pairs"]++
				if err1 != nil || err2 != nil {
					continue // acceptance is C05's business
				}
				for which, m := range []*cors.Middleware{m1, &m2} {
					cfg := []cors.Config{first, second}[which]
					other := []cors.Config{second, first}[which]
					// judged by behaviour only (how Config() renders a configuration is left open; a false alarm on a
					// permitted re-rendering of Config() was corrected here): a preflight naming THIS configuration's method and
					// request headers must succeed, one naming the other configuration's must fare as this configuration says,
					// and an actual request must expose exactly this configuration's response headers
					got := m.Config()
					okCfg, probeOK := true, true
					probe := ""
					lower := func(xs []string) []string {
						out := make([]string, 0, len(xs))
						for _, x := range xs {
							out = append(out, asciiLower(x))
						}
						sort.Strings(out)
						return out
					}
					permits := func(method string, names []string) bool {
						okM := method == "GET" || method == "HEAD" || method == "POST"
						for _, x := range cfg.Methods {
							okM = okM || x == method
						}
						own := map[string]bool{}
						for _, x := range cfg.RequestHeaders {
							own[asciiLower(x)] = true
						}
						for _, n := range names {
							okM = okM && own[n]
						}
						return okM
					}
					for _, src := range []cors.Config{cfg, other} {
						method := "GET"
						if len(src.Methods) > 0 {
							method = src.Methods[0]
						}
						names := lower(src.RequestHeaders)
						var acrh []string
						if len(names) > 0 {
							acrh = []string{strings.Join(names, ",")}
						}
						q := preflightReq("https://example.com", method, acrh, false)
						o := serve(m, q)
						if succ := o.ok2xx() && len(o.get(hACAO)) > 0; succ != permits(method, names) {
							probeOK = false
							probe = reqString(q) + " -> " + o.String()
						}
					}
					if o := serve(m, actualReq("GET", "https://example.com")); true {
						var exposed []string
						for _, line := range o.get(hACEH) {
							for _, el := range strings.Split(line, ",") {
								if el = asciiLower(strings.Trim(el, " \t")); el != "" {
									exposed = append(exposed, el)
								}
							}
						}
						sort.Strings(exposed)
						if !equalStrings(exposed, lower(cfg.ResponseHeaders)) {
							probeOK = false
							probe = "actual GET -> " + o.String()
						}
					}
					if !okCfg || !probeOK {
						r.Violate("other-configuration-shows", "golden", fmt.Sprintf("two different configurations built in one process (separator %q, pair %d, order %d): the middleware configured with %s reports Config() %s and answers %s; the other one is %s", sep, pi, order, cfgString(&cfg), cfgString(got), probe, cfgString(&other)), nil)
						return
					}
				}
			}
		}
	})
}
