//go:build verif && verifyield

package verifharness_test

import "github.com/jub0bs/cors"

// The yield variant of the binary overlays /repo's root package with a copy in
// which every `x.mu.(R)Lock()` statement is preceded, and every
// `x.mu.(R)Unlock()` statement followed, by a call of verifYield (DESIGN.md 2.7).

const yieldBuild = true

func setYieldHook(f func(id int, where string)) {
	if f == nil {
		cors.VerifYieldHook.Store(nil)
		return
	}
	cors.VerifYieldHook.Store(&f)
}
