//go:build verif

package verifharness_test

import (
	"encoding/json"
	"fmt"
	"os"
	"os/exec"
	"sort"
	"strings"
	"sync/atomic"
	"testing"

	"github.com/jub0bs/cors"
	"github.com/jub0bs/cors/cfgerrors"
)

// classifyLeaf maps a leaf error to its ExpErr key and reports anything that
// contradicts the cfgerrors documentation (nil, foreign type, missing prefix,
// wrong documented constants).
func classifyLeaf(e error) (ExpErr, string) {
	if e == nil {
		return ExpErr{Type: "<nil>"}, "nil error yielded"
	}
	msg := ""
	func() {
		defer func() {
			if p := recover(); p != nil {
				msg = fmt.Sprintf("\x00panic in Error(): %v", p)
			}
		}()
		msg = e.Error()
	}()
	problem := ""
	if strings.HasPrefix(msg, "\x00") {
		problem = msg[1:]
	} else if !strings.HasPrefix(msg, "cors: ") {
		problem = fmt.Sprintf("message %q lacks the `cors: ` prefix", msg)
	}
	switch e := e.(type) {
	case *cfgerrors.UnacceptableOriginPatternError:
		if e == nil {
			return ExpErr{Type: "<nil>"}, "typed nil pointer yielded"
		}
		return ExpErr{Type: "UnacceptableOriginPatternError", Value: e.Value, Reason: e.Reason}, problem
	case *cfgerrors.UnacceptableMethodError:
		if e == nil {
			return ExpErr{Type: "<nil>"}, "typed nil pointer yielded"
		}
		return ExpErr{Type: "UnacceptableMethodError", Value: e.Value, Reason: e.Reason}, problem
	case *cfgerrors.UnacceptableHeaderNameError:
		if e == nil {
			return ExpErr{Type: "<nil>"}, "typed nil pointer yielded"
		}
		return ExpErr{Type: "UnacceptableHeaderNameError", Value: e.Value, Reason: e.Reason, HType: e.Type}, problem
	case *cfgerrors.MaxAgeOutOfBoundsError:
		if e == nil {
			return ExpErr{Type: "<nil>"}, "typed nil pointer yielded"
		}
		if e.Default != 5 || e.Max != 86400 || e.Disable != -1 {
			problem = fmt.Sprintf("MaxAgeOutOfBoundsError carries Default=%d Max=%d Disable=%d (documented: 5, 86400, -1)", e.Default, e.Max, e.Disable)
		}
		return ExpErr{Type: "MaxAgeOutOfBoundsError", Value: fmt.Sprint(e.Value)}, problem
	case *cfgerrors.PreflightSuccessStatusOutOfBoundsError:
		if e == nil {
			return ExpErr{Type: "<nil>"}, "typed nil pointer yielded"
		}
		if e.Default != 204 || e.Min != 200 || e.Max != 299 {
			problem = fmt.Sprintf("PreflightSuccessStatusOutOfBoundsError carries Default=%d Min=%d Max=%d (documented: 204, 200, 299)", e.Default, e.Min, e.Max)
		}
		return ExpErr{Type: "PreflightSuccessStatusOutOfBoundsError", Value: fmt.Sprint(e.Value)}, problem
	case *cfgerrors.IncompatibleOriginPatternError:
		if e == nil {
			return ExpErr{Type: "<nil>"}, "typed nil pointer yielded"
		}
		return ExpErr{Type: "IncompatibleOriginPatternError", Value: e.Value, Reason: e.Reason}, problem
	case *cfgerrors.IncompatiblePrivateNetworkAccessModesError:
		if e == nil {
			return ExpErr{Type: "<nil>"}, "typed nil pointer yielded"
		}
		return ExpErr{Type: "IncompatiblePrivateNetworkAccessModesError"}, problem
	case *cfgerrors.IncompatibleWildcardResponseHeaderNameError:
		if e == nil {
			return ExpErr{Type: "<nil>"}, "typed nil pointer yielded"
		}
		return ExpErr{Type: "IncompatibleWildcardResponseHeaderNameError"}, problem
	}
	return ExpErr{Type: fmt.Sprintf("%T", e)}, fmt.Sprintf("leaf of foreign type %T: %q", e, msg)
}

func leavesOf(err error) []error {
	var out []error
	for e := range cfgerrors.All(err) {
		out = append(out, e)
	}
	return out
}

// compareErrors applies the S4 multiplicity rule. It returns "" when the error
// tree is exactly what the documentation prescribes.
func compareErrors(want map[ExpErr]int, leaves []error) string {
	got := map[ExpErr]int{}
	var problems []string
	for _, e := range leaves {
		k, p := classifyLeaf(e)
		if p != "" {
			problems = append(problems, p)
		}
		if _, ok := want[k]; !ok && k.Type == "UnacceptableOriginPatternError" && (k.Reason == "invalid" || k.Reason == "prohibited") {
			k2 := k
			k2.Reason = ""
			if _, ok := want[k2]; ok {
				k = k2
			}
		}
		got[k]++
	}
	for k, n := range got {
		max, ok := want[k]
		if !ok {
			problems = append(problems, fmt.Sprintf("reported error %+v corresponds to no violation", k))
		} else if n > max {
			problems = append(problems, fmt.Sprintf("error %+v reported %d times for %d occurrence(s)", k, n, max))
		}
	}
	for k := range want {
		if got[k] == 0 {
			problems = append(problems, fmt.Sprintf("violation %+v not reported", k))
		}
	}
	sort.Strings(problems)
	return strings.Join(problems, "; ")
}

type c05Case struct {
	Spec  *CfgSpec `json:"spec"`
	Entry string   `json:"entry"` // new | reconf-zero | reconf-configured
	Note  string   `json:"note,omitempty"`
}

var c05BaseCfg = cors.Config{Origins: []string{"https://base.example"}, Methods: []string{"PUT"}, MaxAgeInSeconds: 30}

// buildVia runs the chosen entry point and returns (middleware-or-nil, error).
func buildVia(entry string, cfg cors.Config) (*cors.Middleware, error) {
	switch entry {
	case "reconf-zero":
		m := new(cors.Middleware)
		err := m.Reconfigure(&cfg)
		return m, err
	case "reconf-configured":
		m, err := cors.NewMiddleware(c05BaseCfg)
		if err != nil {
			panic("base config rejected: " + err.Error())
		}
		err = m.Reconfigure(&cfg)
		return m, err
	case "reconf-configured-debug":
		m, err := cors.NewMiddleware(c05BaseCfg)
		if err != nil {
			panic("base config rejected: " + err.Error())
		}
		m.SetDebug(true)
		err = m.Reconfigure(&cfg)
		return m, err
	case "reconf-neighbour":
		// prior state = a configuration that differs from cfg in ONE field only and is accepted (so that an
		// incremental / state-reusing Reconfigure has something to reuse); the library is only used here to
		// pick the prior state, the verdict on cfg is still judged by S4
		for _, nb := range neighbours(cfg) {
			if m, err := cors.NewMiddleware(nb); err == nil {
				return m, m.Reconfigure(&cfg)
			}
		}
		m, err := cors.NewMiddleware(c05BaseCfg)
		if err != nil {
			panic("base config rejected: " + err.Error())
		}
		return m, m.Reconfigure(&cfg)
	default:
		return cors.NewMiddleware(cfg)
	}
}

// neighbours returns configurations that differ from cfg in exactly one field (slices are shared: never mutated).
func neighbours(cfg cors.Config) []cors.Config {
	var out []cors.Config
	add := func(f func(c *cors.Config)) {
		c := cfg
		f(&c)
		out = append(out, c)
	}
	if cfg.PrivateNetworkAccess {
		add(func(c *cors.Config) { c.PrivateNetworkAccess = false })
	}
	if cfg.PrivateNetworkAccessInNoCORSModeOnly {
		add(func(c *cors.Config) { c.PrivateNetworkAccessInNoCORSModeOnly = false })
	}
	if cfg.Credentialed {
		add(func(c *cors.Config) { c.Credentialed = false })
	}
	if !cfg.DangerouslyTolerateInsecureOrigins {
		add(func(c *cors.Config) { c.DangerouslyTolerateInsecureOrigins = true })
	}
	if !cfg.DangerouslyTolerateSubdomainsOfPublicSuffixes {
		add(func(c *cors.Config) { c.DangerouslyTolerateSubdomainsOfPublicSuffixes = true })
	}
	add(func(c *cors.Config) { c.MaxAgeInSeconds = 7 })
	add(func(c *cors.Config) { c.PreflightSuccessStatus = 207 })
	add(func(c *cors.Config) { c.ResponseHeaders = nil })
	add(func(c *cors.Config) { c.RequestHeaders = nil })
	add(func(c *cors.Config) { c.Methods = nil })
	add(func(c *cors.Config) { c.Origins = []string{"https://neighbour.example"} })
	return out
}

var entries = []string{"new", "reconf-zero", "reconf-configured", "reconf-neighbour", "reconf-configured-debug"}

// c05Judge runs the entry point on the configuration and compares the outcome with S4. It returns "" or
// (violation key, monitor, message). Pure with respect to the harness, so that a child process can run it as its very
// first call into the library.
func c05Judge(c *CfgSpec, entry string) (key, monitor, msg string) {
	want := c.violations()
	cfg := c.Config()
	mw, err := buildVia(entry, cfg)
	if len(want) == 0 {
		if err != nil {
			return "valid-rejected", "S4-completeness", fmt.Sprintf("documented-permitted configuration rejected via %s: %v | %s", entry, err, cfgString(&cfg))
		}
		return "", "", ""
	}
	if err == nil {
		return "invalid-accepted", "S4-soundness", fmt.Sprintf("configuration with violations %v accepted via %s | %s", keysOf(want), entry, cfgString(&cfg))
	}
	if entry == "new" && mw != nil {
		return "non-nil-middleware-with-error", "S4-soundness", fmt.Sprintf("NewMiddleware returned a non-nil *Middleware together with error %v", err)
	}
	leaves := leavesOf(err)
	if p := compareErrors(want, leaves); p != "" {
		key := "error-tree"
		switch {
		case strings.Contains(p, "not reported"):
			key = "violation-not-reported"
		case strings.Contains(p, "corresponds to no violation"):
			key = "spurious-error"
		}
		return key, "S4-error-tree", fmt.Sprintf("%s | via %s | %s | reported: %v", p, entry, cfgString(&cfg), err)
	}
	return "", "", ""
}

func c05Run(r *Run, l *Local, c *CfgSpec, entry, note string) {
	l.cur = func() any { return c05Case{c, entry, note} }
	l.counters[fmt.Sprintf("configs_with_%02d_violation_keys", min(len(c.violations()), 12))]++
	key, monitor, msg := c05Judge(c, entry)
	l.Eval()
	if key != "" {
		r.Violate(key, monitor, msg, c05Case{c, entry, note})
	}
}

// ---------------------------------------------------------------------------
// first call in a fresh process (lesson of seeded change C05-n: tables built lazily on first use, one accessor
// forgetting to build them): the test binary re-executes itself; the child's very first call into the library is the
// validation of ONE configuration; the verdict travels back on stdout.

const childEnv = "VERIF_CHILD_CASE"

func TestVerif_Child(t *testing.T) {
	raw := os.Getenv(childEnv)
	if raw == "" {
		t.Skip("not a child process")
	}
	var cs c05Case
	if err := json.Unmarshal([]byte(raw), &cs); err != nil {
		fmt.Printf("CHILD-ERROR %v\n", err)
		return
	}
	key, monitor, msg := c05Judge(cs.Spec, cs.Entry)
	b, _ := json.Marshal([3]string{key, monitor, msg})
	fmt.Printf("CHILD-RESULT %s\n", b)
}

// runInFreshProcess judges one configuration in a child process; ok=false means the child could not be run.
func runInFreshProcess(cs c05Case) (key, monitor, msg string, ok bool) {
	b, err := json.Marshal(cs)
	if err != nil {
		return "", "", "", false
	}
	cmd := exec.Command(os.Args[0], "-test.run", "^TestVerif_Child$", "-test.v")
	cmd.Env = append(os.Environ(), childEnv+"="+string(b), "VERIF_RESULT=", "VERIF_REPLAY=")
	out, err := cmd.Output()
	if err != nil {
		return "", "", "", false
	}
	for _, line := range strings.Split(string(out), "\n") {
		if rest, found := strings.CutPrefix(line, "CHILD-RESULT "); found {
			var res [3]string
			if json.Unmarshal([]byte(rest), &res) == nil {
				return res[0], res[1], res[2], true
			}
		}
	}
	return "", "", "", false
}

func keysOf(m map[ExpErr]int) []string {
	var out []string
	for k := range m {
		out = append(out, fmt.Sprintf("%s(%q,%s%s)", k.Type, k.Value, k.Reason, k.HType))
	}
	sort.Strings(out)
	return out
}

func specKey(c *CfgSpec) string {
	cfg := c.Config()
	return cfgString(&cfg)
}

func TestVerif_C05(t *testing.T) {
	r := newRun(t, "C05")
	r.Rule("configurations assembled from labelled atoms (ground truth by construction): exhaustive single-atom sweeps (every atom of every table alone and at each position of a 3-element list, under every combination of Credentialed x PNA x tolerate flags), " +
		"every subset of the 7 violable fields violated at once, the valid cross-field cube, and PRNG configurations stratified by the number of injected violation kinds (0..12); all entry points (NewMiddleware; Reconfigure on a zero value, on a configured middleware, on a configured middleware in debug mode, and on a middleware holding a configuration that differs in one field only). " +
		"non-trivial = configuration with >= 2 distinct expected error keys, or a valid configuration that relies on a cross-field permission (tolerate flag, `*` next to discrete values, safelisted names); distinct by hash of the Config literal + entry point")
	r.Assume("atom labels (valid / insecure / public-suffix / defect) are correct by construction; expected errors follow the Config, ExtraConfig and cfgerrors documentation; Reason is not pinned between invalid|prohibited for origin-pattern syntax defects")

	var rc c05Case
	if r.LoadReplay(nil, &rc) {
		l := r.newLocal(0)
		if strings.HasPrefix(rc.Note, "first-call") { // witnessed in a fresh process: replayed in one
			if key, monitor, msg, ok := runInFreshProcess(rc); ok && key != "" {
				r.Violate(key, monitor, "as the first library call of a fresh process: "+msg, rc)
			}
		}
		c05Run(r, l, rc.Spec, rc.Entry, rc.Note)
		r.merge(l)
		r.Finish(0)
		return
	}

	nontrivial := func(l *Local, c *CfgSpec, entry string) {
		nk := len(c.violations())
		crossField := nk == 0 && (c.TolInsecure || c.TolPSL || len(c.Methods) > 1 || len(c.ReqHdrs) > 1 || len(c.RespHdrs) > 1)
		if nk >= 2 || crossField {
			l.NontrivialKey(specKey(c), entry)
		}
	}

	// ---- part 1: exhaustive single-atom sweeps
	type sw struct {
		cred       bool
		pna        int
		tolI, tolP bool
	}
	var switches []sw
	for _, cred := range []bool{false, true} {
		for _, pna := range []int{pnaOff, pnaOn, pnaNoCors, pnaBoth} {
			for _, ti := range []bool{false, true} {
				for _, tp := range []bool{false, true} {
					switches = append(switches, sw{cred, pna, ti, tp})
				}
			}
		}
	}
	allOrigins := append(append(append(append([]OAtom{oStarAtom}, secureOriginAtoms...), insecureOriginAtoms...), pslOriginAtoms...), invalidOriginAtoms...)
	allMethods := append(append(append(append([]MAtom{mStarAtom}, validMethodAtoms...), safelistedMethodAtoms...), forbiddenMethodAtoms...), invalidMethodAtoms...)
	allReq := append(append(append(append(append([]HAtom{hStarAtom}, validReqHdrAtoms...), authReqHdrAtoms...), forbiddenReqHdrAtoms...), prohibitedReqHdrAtoms...), invalidHdrAtoms...)
	allResp := append(append(append(append(append([]HAtom{hStarAtom}, validRespHdrAtoms...), safelistedRespHdrAtoms...), forbiddenRespHdrAtoms...), prohibitedRespHdrAtoms...), invalidHdrAtoms...)
	r.Set("atom_tables", map[string]int{"origins": len(allOrigins), "methods": len(allMethods), "request_headers": len(allReq), "response_headers": len(allResp)})

	r.Parallel(len(switches), func(l *Local) {
		s := switches[l.Batch]
		base := func() *CfgSpec {
			return &CfgSpec{Cred: s.cred, PNA: s.pna, TolInsecure: s.tolI, TolPSL: s.tolP,
				Origins: []OAtom{secureOriginAtoms[0]}}
		}
		filler := secureOriginAtoms[7]
		for ei, entry := range entries {
			for _, nonNil := range []bool{false, true} { // no origin pattern: nil and empty non-nil lists
				c := base()
				c.Origins, c.NonNilEmpty = nil, nonNil
				c05Run(r, l, c, entry, "no-origin")
				nontrivial(l, c, entry)
			}
			_ = ei
			for _, a := range allOrigins {
				c := base()
				c.Origins = []OAtom{a}
				c05Run(r, l, c, entry, "single-origin")
				nontrivial(l, c, entry)
				if ei == 0 {
					for pos := 0; pos < 3; pos++ {
						c := base()
						c.Origins = []OAtom{filler, filler, filler}
						c.Origins[pos] = a
						c05Run(r, l, c, entry, "origin-at-position")
						nontrivial(l, c, entry)
					}
					c := base()
					c.Origins = []OAtom{a, filler, a}
					c05Run(r, l, c, entry, "origin-twice")
					nontrivial(l, c, entry)
				}
				if ei == 0 || ei == 3 {
					// next to every pattern of the tables that covers it / is covered by it, in both orders
					for _, rel := range relatedOriginAtoms(a, allValidKindOriginAtoms()) {
						for _, lst := range [][]OAtom{{rel, a}, {a, rel}, {rel, filler, a}} {
							c := base()
							c.Origins = lst
							c05Run(r, l, c, entry, "origin-next-to-related")
							nontrivial(l, c, entry)
						}
					}
				}
			}
			for _, a := range allMethods {
				c := base()
				c.Methods = []MAtom{a}
				c05Run(r, l, c, entry, "single-method")
				if ei == 0 {
					for pos := 0; pos < 3; pos++ {
						c := base()
						c.Methods = []MAtom{validMethodAtoms[0], validMethodAtoms[1], mStarAtom}
						c.Methods[pos] = a
						c05Run(r, l, c, entry, "method-at-position")
						nontrivial(l, c, entry)
					}
				}
			}
			for _, a := range allReq {
				c := base()
				c.ReqHdrs = []HAtom{a}
				c05Run(r, l, c, entry, "single-reqhdr")
				if ei == 0 {
					for pos := 0; pos < 3; pos++ {
						c := base()
						c.ReqHdrs = []HAtom{validReqHdrAtoms[0], hStarAtom, authReqHdrAtoms[0]}
						c.ReqHdrs[pos] = a
						c05Run(r, l, c, entry, "reqhdr-at-position")
						nontrivial(l, c, entry)
					}
				}
			}
			for _, a := range allResp {
				c := base()
				c.RespHdrs = []HAtom{a}
				c05Run(r, l, c, entry, "single-resphdr")
				if ei == 0 {
					for pos := 0; pos < 3; pos++ {
						c := base()
						c.RespHdrs = []HAtom{validRespHdrAtoms[0], safelistedRespHdrAtoms[0], validRespHdrAtoms[1]}
						c.RespHdrs[pos] = a
						c05Run(r, l, c, entry, "resphdr-at-position")
						nontrivial(l, c, entry)
					}
				}
			}
			for _, ma := range append(append([]int{}, validMaxAges...), invalidMaxAges...) {
				for _, st := range append(append([]int{}, validStatuses...), invalidStatus...) {
					c := base()
					c.MaxAge, c.Status = ma, st
					c05Run(r, l, c, entry, "numbers")
					nontrivial(l, c, entry)
				}
			}
		}
	})
	r.Exhaustive("every atom of every table alone, at each position of a 3-element list and duplicated, x Credentialed x 4 PNA settings x 2 tolerate flags (x 3 entry points for singletons); all max-age x status pairs")

	// ---- every atom alone as the FIRST library call of a fresh process
	freshProcessSweep(r, "C05")

	// ---- part 1b: every byte value inside a method and inside request-/response-header names (token alphabet)
	r.Parallel(1, func(l *Local) {
		for v := 0; v < 256; v++ {
			b := string([]byte{byte(v)})
			tchar := isToken("a" + b)
			for ei, entry := range entries {
				mk := MAtom{"ZZ" + b + "QQ", mInvalid, ""}
				hq := HAtom{"X-" + b + "-Y", hInvalid, ""}
				hr := HAtom{"X-" + b + "-Z", hInvalid, ""}
				if tchar {
					mk = MAtom{"ZZ" + b + "QQ", mValid, "ZZ" + b + "QQ"}
					hq = hv("X-" + b + "-Y")
					hr = hv("X-" + b + "-Z")
				}
				c := &CfgSpec{Origins: []OAtom{secureOriginAtoms[0]}, Cred: ei%2 == 0, Methods: []MAtom{validMethodAtoms[0], mk}, ReqHdrs: []HAtom{hq, validReqHdrAtoms[0]}, RespHdrs: []HAtom{validRespHdrAtoms[0], hr}}
				c05Run(r, l, c, entry, "token-byte-sweep")
				l.NontrivialKey(specKey(c), entry)
			}
		}
	})
	r.Exhaustive("every byte value inside a method, a request-header name and a response-header name (valid iff the byte is a token character), all entry points")

	// ---- part 2: every subset of violated fields at once
	r.Parallel(128, func(l *Local) {
		mask := l.Batch
		rng := l.Rng
		reps := pick(r, 30, 600)
		for i := 0; i < reps; i++ {
			c := randValidCfg(rng)
			if mask&1 != 0 {
				insertAt(rng, &c.Origins, choose(rng, invalidOriginAtoms))
			}
			if mask&2 != 0 {
				insertAt(rng, &c.Methods, choose(rng, append(append([]MAtom{}, invalidMethodAtoms...), forbiddenMethodAtoms...)))
			}
			if mask&4 != 0 {
				insertAt(rng, &c.ReqHdrs, choose(rng, append(append(append([]HAtom{}, invalidHdrAtoms...), forbiddenReqHdrAtoms...), prohibitedReqHdrAtoms...)))
			}
			if mask&8 != 0 {
				insertAt(rng, &c.RespHdrs, choose(rng, append(append(append([]HAtom{}, invalidHdrAtoms...), forbiddenRespHdrAtoms...), prohibitedRespHdrAtoms...)))
			}
			if mask&16 != 0 {
				c.MaxAge = choose(rng, invalidMaxAges)
			}
			if mask&32 != 0 {
				c.Status = choose(rng, invalidStatus)
			}
			if mask&64 != 0 {
				c.PNA = pnaBoth
			}
			entry := entries[i%len(entries)]
			c05Run(r, l, c, entry, fmt.Sprintf("field-subset-%07b", mask))
			nontrivial(l, c, entry)
			if i == 0 && (mask == 127 || mask == 5) {
				l.Sample("field-subset", c05Case{c, entry, fmt.Sprintf("field-subset-%07b", mask)})
			}
		}
	})
	r.Exhaustive("all 128 subsets of {Origins, Methods, RequestHeaders, ResponseHeaders, MaxAge, Status, PNA-modes} violated simultaneously (atoms sampled)")

	// ---- part 3: stratified by number of injected violation kinds, incl. 0 (valid space)
	nb := pick(r, 64, 1024)
	per := pick(r, 3000, 12000)
	r.Parallel(nb, func(l *Local) {
		rng := l.Rng
		for i := 0; i < per; i++ {
			n := i % 13
			var c *CfgSpec
			note := "valid"
			if n == 0 {
				c = randValidCfg(rng)
			} else {
				var names []string
				c, names = randInvalidCfg(rng, n)
				note = strings.Join(names, "+")
			}
			entry := entries[rng.IntN(len(entries))]
			c05Run(r, l, c, entry, note)
			nontrivial(l, c, entry)
			if l.Batch == 1 && i < 3 {
				l.Sample("stratified", c05Case{c, entry, note})
			}
		}
	})
	r.Finish(2000)
}

// freshProcessSweep: every labelled atom of every table, alone in its field of an otherwise minimal configuration
// (plus a few list shapes), validated as the very first library call of a fresh child process, via NewMiddleware and via
// Reconfigure on a zero value. prop selects the judgement: C05 demands the exact verdict and error tree, C04 only that
// nothing with a violation is accepted.
func freshProcessSweep(r *Run, prop string) {
	if r.Phase == "coverage" || r.Replaying() {
		return // (coverage is measured on in-process slices; children write no profile)
	}
	var cases []c05Case
	mk := func() *CfgSpec { return &CfgSpec{Origins: []OAtom{secureOriginAtoms[0]}} }
	add := func(c *CfgSpec, note string) {
		cases = append(cases, c05Case{c, "new", note}, c05Case{c, "reconf-zero", note})
	}
	for _, a := range append(append(append(append([]OAtom{oStarAtom}, secureOriginAtoms...), insecureOriginAtoms...), pslOriginAtoms...), invalidOriginAtoms...) {
		c := mk()
		c.Origins = []OAtom{a}
		add(c, "first-call-origin")
		if a.Insecure {
			c2 := mk()
			c2.Origins, c2.Cred = []OAtom{a}, true
			add(c2, "first-call-origin-credentialed")
		}
	}
	for _, a := range append(append(append(append([]MAtom{mStarAtom}, validMethodAtoms...), safelistedMethodAtoms...), forbiddenMethodAtoms...), invalidMethodAtoms...) {
		c := mk()
		c.Methods = []MAtom{a}
		add(c, "first-call-method")
	}
	for _, a := range append(append(append(append(append([]HAtom{hStarAtom}, validReqHdrAtoms...), authReqHdrAtoms...), forbiddenReqHdrAtoms...), prohibitedReqHdrAtoms...), invalidHdrAtoms...) {
		c := mk()
		c.ReqHdrs = []HAtom{a}
		add(c, "first-call-request-header")
	}
	for _, a := range append(append(append(append(append([]HAtom{hStarAtom}, validRespHdrAtoms...), safelistedRespHdrAtoms...), forbiddenRespHdrAtoms...), prohibitedRespHdrAtoms...), invalidHdrAtoms...) {
		c := mk()
		c.RespHdrs = []HAtom{a}
		add(c, "first-call-response-header")
		c2 := mk()
		c2.RespHdrs = []HAtom{a, validRespHdrAtoms[0]}
		add(c2, "first-call-response-header-then-valid")
	}
	for _, v := range append(append([]int{}, validMaxAges...), invalidMaxAges...) {
		c := mk()
		c.MaxAge = v
		add(c, "first-call-max-age")
	}
	for _, v := range append(append([]int{}, validStatuses...), invalidStatus...) {
		c := mk()
		c.Status = v
		add(c, "first-call-status")
	}
	if !r.Thor { // quick: every second case (hashed), thorough: all
		kept := cases[:0]
		for i, cs := range cases {
			if r.visit(i, 2) {
				kept = append(kept, cs)
			}
		}
		cases = kept
	}
	var failedToRun atomic.Int64
	r.Parallel(len(cases), func(l *Local) {
		cs := cases[l.Batch]
		l.cur = func() any { return cs }
		key, monitor, msg, ok := runInFreshProcess(cs)
		l.Eval()
		l.counters["fresh_process_cases"]++
		if !ok {
			failedToRun.Add(1)
			return
		}
		if key == "" || prop == "C04" && key != "invalid-accepted" && key != "non-nil-middleware-with-error" {
			return
		}
		r.Violate(key, monitor, "as the first library call of a fresh process: "+msg, cs)
	})
	if n := failedToRun.Load(); n > int64(len(cases)/10) {
		r.Inconclusive(fmt.Sprintf("%d of %d child processes could not be run", n, len(cases)))
	}
}
