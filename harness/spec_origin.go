//go:build verif

package verifharness_test

import (
	"strconv"
	"strings"
)

// S1 - pattern denotation, written from the Config.Origins documentation and
// the statement of C01. Nothing here calls the code under test.

const (
	portNone = 0
	portAny  = -1
)

// PatSpec is an origin pattern by construction.
type PatSpec struct {
	Scheme string `json:"scheme"`
	Subs   bool   `json:"subs,omitempty"` // leading "*."
	Host   string `json:"host"`           // without "*." and without brackets
	IP6    bool   `json:"ip6,omitempty"`  // host is an IPv6 literal (rendered in brackets)
	Port   int    `json:"port,omitempty"` // portNone, portAny or 1..65535
}

func (p PatSpec) String() string {
	var sb strings.Builder
	sb.WriteString(p.Scheme)
	sb.WriteString("://")
	if p.Subs {
		sb.WriteString("*.")
	}
	if p.IP6 {
		sb.WriteByte('[')
		sb.WriteString(p.Host)
		sb.WriteByte(']')
	} else {
		sb.WriteString(p.Host)
	}
	switch p.Port {
	case portNone:
	case portAny:
		sb.WriteString(":*")
	default:
		sb.WriteByte(':')
		sb.WriteString(strconv.Itoa(p.Port))
	}
	return sb.String()
}

// OriginSpec is a serialized tuple origin by construction.
type OriginSpec struct {
	Scheme string `json:"scheme"`
	Host   string `json:"host"`
	IP6    bool   `json:"ip6,omitempty"`
	Port   int    `json:"port,omitempty"` // 0 = absent
}

func (o OriginSpec) String() string {
	var sb strings.Builder
	sb.WriteString(o.Scheme)
	sb.WriteString("://")
	if o.IP6 {
		sb.WriteByte('[')
		sb.WriteString(o.Host)
		sb.WriteByte(']')
	} else {
		sb.WriteString(o.Host)
	}
	if o.Port != 0 {
		sb.WriteByte(':')
		sb.WriteString(strconv.Itoa(o.Port))
	}
	return sb.String()
}

// denotes is the right-hand side of C01 for one pattern.
func denotes(p PatSpec, o OriginSpec) bool {
	if p.Scheme != o.Scheme {
		return false
	}
	hostOK := false
	if p.IP6 == o.IP6 && p.Host == o.Host && !p.Subs {
		hostOK = true
	}
	if p.Subs && !o.IP6 && len(o.Host) > len(p.Host)+1 && strings.HasSuffix(o.Host, "."+p.Host) {
		x := o.Host[:len(o.Host)-len(p.Host)-1]
		if x != "" && x[len(x)-1] != '.' {
			hostOK = true
		}
	}
	if !hostOK {
		return false
	}
	switch p.Port {
	case portAny:
		return true
	default:
		return p.Port == o.Port // portNone == 0 == absent
	}
}

func denotesAny(ps []PatSpec, o OriginSpec) bool {
	for i := range ps {
		if denotes(ps[i], o) {
			return true
		}
	}
	return false
}

// matchRaw decides, for *arbitrary bytes* raw, whether raw is the
// serialization of an origin denoted by p (used by C03/C16 where the Origin
// value is hostile). It is a string-level recogniser that never parses raw
// the way the library does: raw must be p.Scheme "://" HOST [":" PORT] with
// PORT canonical (1..65535, no leading zero) and HOST equal to the pattern's
// host or, for a "*." pattern, X "." host with X a non-empty sequence of
// non-empty labels over [a-z0-9_-].
//
// One documented leniency of the request-side parser is mirrored (DESIGN.md,
// S1): a HOST of the form "[" c "]" is judged on c, with X unrestricted; no
// browser emits such an Origin for a non-IPv6 host.
func matchRaw(p PatSpec, raw string) bool {
	rest, ok := strings.CutPrefix(raw, p.Scheme+"://")
	if !ok {
		return false
	}
	var host, after string
	bracketed := false
	if len(rest) >= 4 && rest[0] == '[' {
		end := strings.IndexByte(rest, ']')
		if end < 0 {
			return false
		}
		host, after = rest[1:end], rest[end+1:]
		bracketed = true
	} else {
		i := strings.IndexByte(rest, ':')
		if i < 0 {
			host, after = rest, ""
		} else {
			host, after = rest[:i], rest[i:]
		}
	}
	// port
	port := 0
	if after != "" {
		if after[0] != ':' {
			return false
		}
		ds := after[1:]
		if len(ds) == 0 || len(ds) > 5 || ds[0] == '0' {
			return false
		}
		for i := 0; i < len(ds); i++ {
			if ds[i] < '0' || ds[i] > '9' {
				return false
			}
		}
		port, _ = strconv.Atoi(ds)
		if port < 1 || port > 65535 {
			return false
		}
	}
	if p.Port != portAny && p.Port != port {
		return false
	}
	// host
	if p.IP6 && !bracketed {
		return false
	}
	if host == p.Host && !p.Subs {
		return true
	}
	if p.Subs && len(host) > len(p.Host)+1 && strings.HasSuffix(host, "."+p.Host) {
		x := host[:len(host)-len(p.Host)-1]
		if bracketed {
			return true
		}
		return validSubLabels(x)
	}
	return false
}

func validSubLabels(x string) bool {
	if x == "" || x[0] == '.' || x[len(x)-1] == '.' {
		return false
	}
	prevDot := false
	for i := 0; i < len(x); i++ {
		c := x[i]
		switch {
		case c == '.':
			if prevDot {
				return false
			}
			prevDot = true
		case c >= 'a' && c <= 'z', c >= '0' && c <= '9', c == '-', c == '_':
			prevDot = false
		default:
			return false
		}
	}
	return true
}

func matchRawAny(ps []PatSpec, raw string) bool {
	for i := range ps {
		if matchRaw(ps[i], raw) {
			return true
		}
	}
	return false
}

// ---------------------------------------------------------------------------
// near-miss generation (the quantifier of C01)

// nearMisses returns origins the pattern denotes ("hit" candidates) and the
// near-misses named by the quantifier of C01. The oracle (denotes) decides what
// each of them is; this function only proposes.
func probesFor(p PatSpec) []OriginSpec {
	var out []OriginSpec
	add := func(o OriginSpec) {
		if o.Host == "" || o.Scheme == "" {
			return
		}
		if len(o.Host) > 253 && !(len(o.Host) == 254 && o.Host[253] == '.') {
			return
		}
		if o.Host[0] == '.' || strings.Contains(o.Host, "..") {
			return
		}
		if !o.IP6 { // well-formed hosts only: lower-case letters, digits, hyphen, underscore, dot
			for i := 0; i < len(o.Host); i++ {
				c := o.Host[i]
				if !(c >= 'a' && c <= 'z' || c >= '0' && c <= '9' || c == '-' || c == '_' || c == '.') {
					return
				}
			}
		}
		if !o.IP6 && !wellFormedNumericHost(o.Host) {
			return
		}
		out = append(out, o)
	}
	ports := []int{0, 1, 80, 443, 8080, 65535}
	if p.Port > 0 {
		ports = append(ports, p.Port, p.Port+1, p.Port-1, p.Port/10, p.Port*10)
	}
	validPort := func(n int) bool { return n == 0 || (n >= 1 && n <= 65535) }
	hosts := []string{p.Host}
	if !p.IP6 {
		h := p.Host
		if p.Subs { // subdomain labels of every shape: longest, digit-first, consecutive digit-first, single byte
			l63 := strings.Repeat("a", 63)
			d32 := "0123456789abcdef0123456789abcdef"
			hosts = append(hosts, l63+"."+h, "9"+l63[1:]+"."+h, d32+"."+d32+"."+h, "a1b2c3d4e5f6a7b8c9d0e1f2a3b4c5d6."+d32+"."+h,
				"0."+h, "9z."+h, "x1.0y.2z."+h, "1.2.3."+h, l63+"."+l63+"."+h)
			// as many one-byte labels as fit into 253 bytes (the trailing dot of the base, if any, does not count)
			if room := 253 - len(strings.TrimSuffix(h, ".")); room >= 2 {
				hosts = append(hosts, strings.Repeat("a.", room/2)+h, strings.Repeat("b.", room/2-1)+"cc."+h)
			}
		}
		hosts = append(hosts,
			"a"+h,        // extended on the left without a dot
			"a."+h,       // one label deeper
			"b.a."+h,     // two labels deeper
			"a-b.c_d."+h, // unusual but legal label bytes
			h+"a",        // extended on the right
			h+".a",       // suffix label added
		)
		if len(h) > 1 {
			hosts = append(hosts, h[1:], h[:len(h)-1]) // truncated on either side
		}
		if i := strings.IndexByte(h, '.'); i >= 0 && i+1 < len(h) {
			hosts = append(hosts, h[i+1:]) // one label shallower
			hosts = append(hosts, h[:i])   // first label only
		}
		if strings.HasSuffix(h, ".") {
			hosts = append(hosts, strings.TrimSuffix(h, "."), "a."+strings.TrimSuffix(h, "."))
		} else {
			hosts = append(hosts, h+".", "a."+h+".")
		}
		// one byte replaced by a smaller / greater neighbour: last byte, first byte, and the byte before the first dot
		repl := func(pos int, nb byte) {
			if pos >= 0 && pos < len(h) && h[pos] != nb && h[pos] != '.' {
				hosts = append(hosts, h[:pos]+string(nb)+h[pos+1:], "a."+h[:pos]+string(nb)+h[pos+1:])
			}
		}
		for _, pos := range []int{len(h) - 1, 0, strings.IndexByte(h, '.') - 1} {
			if pos >= 0 && pos < len(h) {
				repl(pos, h[pos]-1)
				repl(pos, h[pos]+1)
				repl(pos, 'a')
				repl(pos, 'z')
				repl(pos, '0')
			}
		}
	} else {
		hosts = append(hosts, p.Host+"1", "1"+p.Host)
	}
	schemes := []string{p.Scheme, p.Scheme + "s", "x" + p.Scheme, "http", "https"}
	if len(p.Scheme) > 1 {
		schemes = append(schemes, p.Scheme[:len(p.Scheme)-1], p.Scheme[1:])
	}
	for _, h := range hosts {
		for _, pt := range ports {
			if validPort(pt) {
				add(OriginSpec{Scheme: p.Scheme, Host: h, IP6: p.IP6, Port: pt})
			}
		}
	}
	for _, s := range schemes {
		if !validSchemeSpec(s) {
			continue
		}
		for _, h := range hosts[:min(3, len(hosts))] {
			pt := p.Port
			if pt < 0 {
				pt = 8080
			}
			add(OriginSpec{Scheme: s, Host: h, IP6: p.IP6, Port: pt})
			add(OriginSpec{Scheme: s, Host: h, IP6: p.IP6, Port: 0})
		}
	}
	if !p.IP6 {
		// same host text offered as an IPv6 literal can never be equal to a domain
		// (not generated: a bracketed non-IP host is not a well-formed origin)
	}
	return out
}

func validSchemeSpec(s string) bool {
	if s == "" || len(s) > 64 || s[0] < 'a' || s[0] > 'z' {
		return false
	}
	for i := 1; i < len(s); i++ {
		c := s[i]
		if !(c >= 'a' && c <= 'z' || c >= '0' && c <= '9' || c == '+' || c == '-' || c == '.') {
			return false
		}
	}
	return true
}

// wellFormedNumericHost: a browser's URL parser treats a host whose last label is a number as an IPv4 address and
// serializes it as a canonical dotted quad (or fails); so a host "ending in a number" is well-formed only if it IS a
// canonical dotted quad. Hosts not ending in a number are not judged here.
func wellFormedNumericHost(h string) bool {
	labels := strings.Split(strings.TrimSuffix(h, "."), ".")
	last := labels[len(labels)-1]
	numeric := last != ""
	for i := 0; i < len(last); i++ {
		if last[i] < '0' || last[i] > '9' {
			numeric = false
		}
	}
	if !numeric && !(strings.HasPrefix(last, "0x") || strings.HasPrefix(last, "0X")) {
		return true
	}
	if strings.HasSuffix(h, ".") || len(labels) != 4 {
		return false
	}
	for _, l := range labels {
		if l == "" || len(l) > 3 || (len(l) > 1 && l[0] == '0') {
			return false
		}
		n := 0
		for i := 0; i < len(l); i++ {
			if l[i] < '0' || l[i] > '9' {
				return false
			}
			n = n*10 + int(l[i]-'0')
		}
		if n > 255 {
			return false
		}
	}
	return true
}

// patSpecFromString parses the rendering of a PatSpec back (replays of patterns generated on the fly).
func patSpecFromString(s string) (PatSpec, bool) {
	i := strings.Index(s, "://")
	if i <= 0 {
		return PatSpec{}, false
	}
	sp := PatSpec{Scheme: s[:i]}
	rest := s[i+3:]
	if strings.HasPrefix(rest, "*.") {
		sp.Subs = true
		rest = rest[2:]
	}
	host, port := rest, ""
	if strings.HasPrefix(rest, "[") {
		end := strings.IndexByte(rest, ']')
		if end < 0 {
			return PatSpec{}, false
		}
		sp.IP6 = true
		host, port = rest[1:end], strings.TrimPrefix(rest[end+1:], ":")
	} else if j := strings.IndexByte(rest, ':'); j >= 0 {
		host, port = rest[:j], rest[j+1:]
	}
	sp.Host = host
	switch port {
	case "":
	case "*":
		sp.Port = portAny
	default:
		n, err := strconv.Atoi(port)
		if err != nil {
			return PatSpec{}, false
		}
		sp.Port = n
	}
	return sp, true
}
