#!/usr/bin/env python3
"""Generates MANIFEST.json from the table below (run after adding a check)."""
import json, os

HERE = os.path.dirname(os.path.abspath(__file__))

CHECKS = {
    "C14": dict(
        technique="runtime reference-model monitor: headers.Check and real preflights vs an executable transcription of the ACRH approval rule, exhaustive small-alphabet enumeration + PRNG structured inputs",
        text="Every execution of the real scanner (internal/headers.Check, and 1% of structured cases through NewMiddleware + preflight) is compared with a 30-line executable specification written from the property statement. All strings over {a,b,comma,SP,HTAB} up to length 10 (quick) / 12 (thorough), as one line and in every two-line split, against six name sets are enumerated completely; structured and window-edge inputs are PRNG-determined. Held on the executions listed in the evidence; not a proof for longer inputs or other alphabets.",
        note="trusts the specification S5 (DESIGN.md section 3) as the reading of the statement; Go runtime; the harness observes headers.Check through the same internal API the repository's tests use",
        ref="4/C14"),
}

PENDING = {}

def main():
    props = [json.loads(l) for l in open(os.path.join(HERE, "properties.jsonl"))]
    checks, na = [], []
    for p in props:
        pid = p["id"]
        if pid in CHECKS:
            c = CHECKS[pid]
            checks.append({
                "property_id": pid,
                "quick_cmd": "./check %s --tier quick" % pid,
                "thorough_cmd": "./check %s --tier thorough" % pid,
                "evidence_file": "/verif/evidence/%s.json" % pid,
                "replay_cmd_template": "./check %s --replay {path}" % pid,
                "engine": "harness",
                "level_claimed": {"category": "exploration", "text": c["text"], "design_ref": "DESIGN.md section " + c["ref"]},
                "level_note": c["note"],
                "technique": c["technique"],
            })
        else:
            na.append({"property_id": pid, "reason": PENDING.get(pid, "check not built yet (work in progress; the design in DESIGN.md section 4 applies) - not claimed until its monitor exists and is silent on the unchanged tree")})
    m = {
        "version": 1,
        "setup_cmd": "./setup.sh",
        "hooks": {
            "guard": "verif",
            "enable": "go test -c -tags verif -overlay=<generated> (the harness and the C07 lock-boundary yield points are overlay files generated from the current text of /repo; nothing guarded lives in /repo)",
            "baseline_off_cmd": "cd /repo && go test -vet=off -count=1 -timeout 25m ./...",
            "source_commits": [],
            "add_only": True,
        },
        "engines": [{
            "name": "harness", "path": "/verif/check",
            "serves_properties": [c["property_id"] for c in checks],
            "kind_free_text": "python driver + Go test binary (package verifharness_test overlaid into /repo/internal/verifharness): runtime monitors, reference models, race detector, porcupine",
        }],
        "checks": checks,
        "not_applicable": na,
        "notes": "Technique family: runtime monitoring and sanitizers. exit 2 = inconclusive (never on the unchanged tree). See DESIGN.md.",
    }
    if not na:
        del m["not_applicable"]
    with open(os.path.join(HERE, "MANIFEST.json"), "w") as f:
        json.dump(m, f, indent=1)
    print("MANIFEST.json: %d checks, %d not claimed" % (len(checks), len(na)))

if __name__ == "__main__":
    main()
