#!/usr/bin/env python3
"""Generates MANIFEST.json from the table below (run after adding a check)."""
import json, os

HERE = os.path.dirname(os.path.abspath(__file__))

CHECKS_C14 = dict(
        technique="runtime reference-model monitor: headers.Check and real preflights vs an executable transcription of the ACRH approval rule, exhaustive small-alphabet enumeration + PRNG structured inputs",
        text="Every execution of the real scanner (internal/headers.Check, and 1% of structured cases through NewMiddleware + preflight) is compared with a 30-line executable specification written from the property statement. All strings over {a,b,comma,SP,HTAB} up to length 10 (quick) / 12 (thorough), as one line and in every two-line split, against six name sets are enumerated completely; structured and window-edge inputs are PRNG-determined. Held on the executions listed in the evidence; not a proof for longer inputs or other alphabets.",
        note="trusts the specification S5 (DESIGN.md section 3) as the reading of the statement; Go runtime; the harness observes headers.Check through the same internal API the repository's tests use",
        ref="4/C14")

CHECKS = {
    "C01": dict(
        technique="runtime reference-model monitor: origins.Tree (ParsePattern+Insert+Contains) and GET responses vs an executable pattern-denotation oracle; exhaustive small lists + PRNG long lists; quiescent-point invariant on Elems()",
        text="Every (pattern list, origin) verdict of the real radix tree - and of the public API on a slice of the lists - is compared with the denotation oracle S1 written from the statement. All ordered lists of length <= 2 over 192 (quick) / 660 (thorough) colliding patterns and all triples over 24/48-pattern cores are enumerated completely, with every near-miss probe of every member; long lists with permutations and duplications are PRNG-determined. Held on the executions counted in the evidence.",
        note="trusts S1 (DESIGN.md 3) and that universe patterns are valid by construction; observes the tree through the internal API the repository's own tests use",
        ref="4/C01"),
    "C02": dict(
        technique="runtime differential monitor: executable Fetch browser model run against the real middleware vs the configuration-meaning oracle",
        text="For every configuration of a 20k-element product and every browser intent cell (origin class x 14 method spellings x 32 header subsets x credentials x PNA x debug x tolerated ACRH perturbation) the end-to-end verdict of a transcription of Fetch's CORS-preflight fetch / CORS check over the real responses is compared with `permits` (the right-hand side of C02). Quick runs a stratified 1/97 slice, thorough the full product.",
        note="trusts the transcription S3 of Fetch/PNA and the configuration-meaning oracle S2; both are independent of the implementation",
        ref="4/C02"),
    "C03": dict(
        technique="online invariant monitor over every response to hostile requests (plus a -race/checkptr replay in the thorough tier)",
        text="Every response produced for hostile requests (systematic malformed/near-miss Origin values derived from each configuration x request shapes, PRNG shapes and byte-level mutations) under the configuration product and both debug modes is checked against all header invariants of the statement; which raw Origin bytes serialise an allowed origin is decided by a string-level recogniser independent of the library's parser.",
        note="trusts matchRaw (S1), which mirrors one documented leniency of the request-side parser (bracketed non-IP hosts)",
        ref="4/C03"),
    "C04": dict(
        technique="runtime soundness monitor: labelled-atom configurations with known violations and arbitrary junk vs a recogniser of necessary conditions of the documented grammar",
        text="Configurations that carry at least one documented violation by construction (every conditional/invalid atom in several list shapes under all 32 switch combinations and all three entry points; exhaustive integer windows; stratified multi-violation mixes) must be rejected with a nil *Middleware; whatever is accepted among junk configurations (fragment assembly, random bytes, mutations) must satisfy necessary conditions of the documented grammar.",
        note="trusts the atom labels (ground truth by construction) and the junk recogniser, which tolerates the undocumented grey zones",
        ref="4/C04"),
    "C05": dict(
        technique="runtime reference-model monitor: error trees (cfgerrors.All, type switches) vs expected violation multisets computed from labelled atoms",
        text="Both directions of the validation spec S4: violation-free configurations must be accepted; otherwise the leaves of the returned error must be exactly (multiplicity rule) the expected (type, Value, Reason/Type/bounds) records, non-nil pointers to exported types with the `cors: ` prefix. Exhaustive single-atom sweeps under all switch combinations, all 128 subsets of violated fields, stratified 0..12 simultaneous violations.",
        note="trusts the atom labels and S4's reading of the Config/ExtraConfig/cfgerrors documentation; Reason not pinned between invalid|prohibited for pattern syntax defects",
        ref="4/C05"),
    "C06": dict(
        technique="metamorphic runtime monitor: four-way response equality over configuration-derived request suites, Config() fixpoint",
        text="For valid configurations (C02 product + enriched generator: IP literals, trailing dots, subsuming/duplicate patterns, `*` mixes, max-age -1/0, status 204/200/299) the answers of New(c), New(*Config()), zero-value Reconfigure(&c) and before/after m.Reconfigure(m.Config()) to ~100 derived requests in both debug modes must be identical, Reconfigure(Config()) must succeed and Config() must be a fixpoint after one round trip.",
        note="trusts that generated configurations are valid by construction and that the derived suite shows every observable aspect",
        ref="4/C06"),
    "C07": dict(
        technique="race detector + porcupine linearizability checking of recorded client-boundary histories + deterministic schedule-point injection (ResponseWriter/handler hooks and lock-boundary yield points generated from the current source)",
        text="M-inject runs every (start state, outer operation, inner operation sequence) at every schedule point of the outer operation (about 18k mini-histories); M-lin records stress histories (8 clients x 25 ops, GOMAXPROCS 2/4/16, three yield-hook profiles) under -race; all histories are checked by porcupine against the sequential (configuration, debug) model with golden responses; race reports with library frames are violations.",
        note="trusts porcupine v1.3.0, the Go race detector and the S6 model; interleavings strictly inside a critical section are not produced",
        ref="4/C07"),
    "C08": dict(
        technique="before/after runtime monitor over request suites, Config() and debug mode around rejected Reconfigure calls",
        text="For prior states (passthrough by zero value and by Reconfigure(nil); configured x debug) and invalid configurations with 1..12 violations (incl. invalid only in the first or only in the last validated field, valid fields differing from the state in every aspect) the answers to the union of both suites, Config() and the answers after a later no-op round trip must be unchanged and the call must return an error.",
        note="trusts that the invalid configurations are invalid by construction (S4)",
        ref="4/C08"),
    "C09": dict(
        technique="runtime reference-model monitor: exhaustive operation histories vs the documented debug state machine, observed through probes after every step; debug-invariance pair monitor",
        text="All histories up to length 5 (quick) / 7 (thorough) over six operations from NewMiddleware(A) and the zero value, state observed after every step (all 5 states and 30 transitions must be visited); plus debug off/on response pairs over the configuration product: only failing preflights may differ, and only by an ok status and a subset of the diagnostic headers, without turning the failure into a grant.",
        note="trusts S6 and the observability of (configuration, debug) through the chosen probes",
        ref="4/C09"),
    "C10": dict(
        technique="2-safety pair monitor: second requests agreeing on the Vary-listed headers of the first response must be answered identically",
        text="For the configuration product x debug x pre-set Vary values x 20 first-request shapes, every header not listed in the first response's Vary is replaced by every value of its pool (systematically) and in PRNG combinations; status, all headers and body must be identical and pre-set Vary values preserved.",
        note="assumes a cache keys on method + Vary-listed request headers as value lists; Vary-listed headers are kept byte-identical in the second request",
        ref="4/C10"),
    "C11": dict(
        technique="differential runtime monitor against a reference run of the same chain without the CORS middleware + identity/count spy",
        text="The preflight predicate boundary (10 method tokens x 5 Origin shapes x 5 ACRM shapes) is enumerated completely for each visited configuration, passthrough middlewares included, with random handler programs (status, body, Set/Add/Del of Vary/CORS/other headers before and after WriteHeader) and pre-set headers: preflights never reach the handler and have no body; everything else reaches it exactly once with the same request and writer, and the client gets exactly the handler's program applied to what it found.",
        note="trusts the reference run as the definition of the handler's own output",
        ref="4/C11"),
    "C12": dict(
        technique="golden-comparison runtime monitor after every adversarial mutation step; race detector on shared middlewares",
        text="Worlds of three live middlewares (two sharing one Config value) are subjected to histories of adversarial steps (poisoning Config arguments, Config() results, and - from the wrapped handler - every reachable request/response header slice in place and within capacity; interleaved ordinary requests; Reconfigure with later-poisoned equal configs); after every step probes must equal the answers of a fresh untouched middleware. A -race phase hammers shared middlewares from 16 goroutines.",
        note="the wrapped handler is the only in-request adversary (what a custom ResponseWriter could reach on the preflight path is outside the statement)",
        ref="4/C12"),
    "C13": dict(
        technique="grammar-based generation with ground truth by construction, monitored through NewMiddleware, origins.ParsePattern and a self-match GET",
        text="Valid patterns are generated from the documented grammar (every domain length 1..253, label 1..63, scheme 1..64, ports, IPv4, RFC 5952 IPv6 from an independent formatter, `*.`, trailing dot, all maxima at once) and must be accepted and self-match; every documented defect is applied to every generated shape and must be rejected with an UnacceptableOriginPatternError naming the string.",
        note="grey zones listed in the property are not generated",
        ref="4/C13"),
    "C14": CHECKS_C14,
    "C15": dict(
        technique="metamorphic runtime monitor: permuted / duplicated / case-varied twin configurations must answer identically",
        text="For each visited valid configuration all permutations of each list up to length 4 (PRNG beyond), duplications, header-name case flips, normalisable method spellings and added safelisted names yield twins that must be accepted and answer the derived request suite identically in both debug modes.",
        note="Config() values are deliberately not compared (as the property says)",
        ref="4/C15"),
    "C16": dict(
        technique="online invariant monitor with canary taint over debug-off preflight responses",
        text="Every discrete allow-list of every product configuration is given a canary token no request supplies; over systematic and hostile preflights failing at each step and succeeding, failures must carry no Access-Control-* header and one non-ok status per configuration, successes may only name `*`, `true`, the max-age and request-supplied tokens, and no canary may appear anywhere.",
        note="success is read off the response (ok status and ACAO present)",
        ref="4/C16"),
    "C17": dict(
        technique="recover()-based crash monitor + child-process death detection; -race/checkptr replay and Go native coverage-guided fuzzing in the thorough tier",
        text="Every call into the library (NewMiddleware, Reconfigure, Config, SetDebug, cfgerrors.All, ServeHTTP) is guarded; inputs: every byte value at every position of seed patterns/methods/header names and of Origin/ACRM/ACRH/ACRPN values, length extremes to 1 MiB, junk and labelled configurations, boundary integers, hostile request shapes (zero-valued keys, nil header map), deep and wide join trees.",
        note="a fatal error that recover() cannot see kills the child; the driver reports it with the last batch marker",
        ref="4/C17"),
    "C18": dict(
        technique="runtime allocation accounting (testing.AllocsPerRun) over a size grid on the plain build",
        text="For 7 configuration kinds x debug x 17 request kinds with one attacker-sized field each, allocations per ServeHTTP are measured at sizes up to 10^5 (quick) / 10^6 bytes and 10^5 elements (thorough): at most 10 everywhere and no more than 2 above the maximum seen at sizes <= 100.",
        note="assumes the harness's reusable writer, no-op handler and pre-built request allocate nothing; counts allocations, not bytes",
        ref="4/C18"),
    "C19": dict(
        technique="runtime reference-model monitor: cfgerrors.All vs an independent flattening of join trees built by construction, every break position",
        text="All plane join trees with <= 6 (quick) / 7 (thorough) leaves and depth <= 3/4 (plus nil-interleaved variants) x every break position, by calling the iter.Seq directly with a counting yield and by for-range+break; PRNG trees to 10^4 leaves / depth 10^4; for middleware errors the yielded count must equal the leaf count and lie within the expected number of violations.",
        note="leaves carry unique ids; order is unspecified, so multisets are compared",
        ref="4/C19"),
}

PENDING = {}

def main():
    props = [json.loads(l) for l in open(os.path.join(HERE, "properties.jsonl"))]
    checks, na = [], []
    for p in props:
        pid = p["id"]
        if pid in CHECKS:
            c = CHECKS[pid]
            checks.append({
                "property_id": pid,
                "quick_cmd": "./check %s --tier quick" % pid,
                "thorough_cmd": "./check %s --tier thorough" % pid,
                "evidence_file": "/verif/evidence/%s.json" % pid,
                "replay_cmd_template": "./check %s --replay {path}" % pid,
                "engine": "harness",
                "level_claimed": {"category": "exploration", "text": c["text"], "design_ref": "DESIGN.md section " + c["ref"]},
                "level_note": c["note"],
                "technique": c["technique"],
            })
        else:
            na.append({"property_id": pid, "reason": PENDING.get(pid, "check not built yet (work in progress; the design in DESIGN.md section 4 applies) - not claimed until its monitor exists and is silent on the unchanged tree")})
    m = {
        "version": 1,
        "setup_cmd": "./setup.sh",
        "hooks": {
            "guard": "verif",
            "enable": "go test -c -tags verif -overlay=<generated> (the harness and the C07 lock-boundary yield points are overlay files generated from the current text of /repo; nothing guarded lives in /repo)",
            "baseline_off_cmd": "cd /repo && go test -vet=off -count=1 -timeout 25m ./...",
            "source_commits": [],
            "add_only": True,
        },
        "engines": [{
            "name": "harness", "path": "/verif/check",
            "serves_properties": [c["property_id"] for c in checks],
            "kind_free_text": "python driver + Go test binary (package verifharness_test overlaid into /repo/internal/verifharness): runtime monitors, reference models, race detector, porcupine",
        }],
        "checks": checks,
        "not_applicable": na,
        "notes": "Technique family: runtime monitoring and sanitizers. exit 2 = inconclusive (never on the unchanged tree). See DESIGN.md.",
    }
    if not na:
        del m["not_applicable"]
    with open(os.path.join(HERE, "MANIFEST.json"), "w") as f:
        json.dump(m, f, indent=1)
    print("MANIFEST.json: %d checks, %d not claimed" % (len(checks), len(na)))

if __name__ == "__main__":
    main()
