#!/bin/sh
# Builds the framework from files on disk only (offline): warms the Go build cache
# with every binary variant the checks use. Checks rebuild (incrementally) on every run.
set -e
cd "$(dirname "$0")"
export GOFLAGS=-mod=mod GOPROXY=off GOSUMDB=off GOTOOLCHAIN=local
mkdir -p .build evidence replays
exec python3 ./check --warm
